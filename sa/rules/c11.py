"""C11 -- instruction cache (structural clauses).

R11.fetch   read_instruction call sites: IF stage and single stage fetch exactly once
            per path, at the program counter, under `instruction_at_pc()`; the cache
            fills a whole block from the lower memory, guarding every slot with
            instruction_at_address (EmptyInstruction otherwise), and selects by
            block_offset; no other caller (the CLI display is a tabled exemption).
R11.acct    the accounting group on every path of read_instruction (as R09.acct).
R11.hit     hit flag is the cache lookup's verdict.
R11.load / R11.reset   both memories are reset before parsing; reset() restores the
            counters, rebuilds the cache with the stored geometry and clears the
            lower memory; no other mutable field exists.
R11.deleg   the cache system answers instruction_at_address / has_instructions /
            get_representation / write_* from the lower memory.
"""
from __future__ import annotations

import ast

from ..cachepaths import self_attr
from ..common import all_functions, seg, short
from ..guards import facts_of
from ..linear import linform
from ..model import AnalysisError, walk_no_nested
from ..paths import calls_in, event_exprs, function_paths
from ..report import Ctx
from .c09 import acct_rule, hit_rule
from .c13 import load_rules

EXPLANATION = (
    "Decides the instruction-cache clauses that are visible in the code's shape: each executed "
    "instruction is fetched exactly once through read_instruction under the has-instruction guard "
    "(so the access counter equals the number of fetches), every path of the cached fetch carries "
    "the complete accounting group with the penalty on the miss branch only, the fill covers the "
    "whole block with guarded slots and selects by block offset, and reset/load leave neither "
    "cached instructions nor counters behind. Hit counts against a reference cache over whole "
    "programs depend on replacement state and are not decided."
)
ASSUMPTIONS = ["the CLI's display call of read_instruction is exempt: the CLI cannot enable a cache"]
TRUSTED = ["CPython ast", "sa.paths enumeration", "sa.linear"]


def run(ctx: Ctx) -> None:
    m = ctx.model
    r = ctx.rule("R11.fetch", "one guarded fetch per executed instruction; guarded block fill; selection by offset")
    stages = [m.method("InstructionFetchStage", "behavior", own=True), m.method("SingleStage", "behavior", own=True)]
    sanctioned: set = set()
    for f in stages:
        key0 = short(f.qname)
        n = 0
        for p in function_paths(f.node):
            if p.term == "raise" and not any(e.kind == "except" for e in p.events):
                continue
            n += 1
            facts: set = set()
            fetches = []
            for e in p.events:
                if e.kind == "test":
                    facts |= facts_of(e.node, bool(e.pol))
                if e.kind == "except":
                    break
                for x in event_exprs(e):
                    for c in calls_in(x):
                        if isinstance(c.func, ast.Attribute) and c.func.attr == "read_instruction":
                            fetches.append((c, set(facts)))
                            sanctioned.add(id(c))
            has = ("state.instruction_at_pc()", True) in facts
            key = f"{key0}|{'has-instruction' if has else 'no-instruction'}"
            if has:
                ok = len(fetches) == 1 and ("state.instruction_at_pc()", True) in fetches[0][1]
                if ok:
                    a = fetches[0][0].args[0] if fetches[0][0].args else None
                    ok = a is not None and (ast.unparse(a) == "state.program_counter" or _bound_to_pc(f, a))
                r.check(ok, key, f.loc(fetches[0][0] if fetches else None),
                        f"{key0}: a path with an instruction at pc performs {len(fetches)} fetch(es) "
                        "(exactly one read_instruction(state.program_counter) under instruction_at_pc() is required)",
                        None, p.labels()[:10])
            else:
                r.check(not fetches, key, f.loc(fetches[0][0] if fetches else None),
                        f"{key0}: fetches although instruction_at_pc() did not hold", None, p.labels()[:10])
        if n == 0:
            raise AnalysisError(f"R11.fetch: no path in {key0}")
    # instruction_at_pc is instruction_at_address(program_counter)
    f = m.method("RiscvArchitecturalState", "instruction_at_pc", own=True)
    rets = [n for n in walk_no_nested(f.node) if isinstance(n, ast.Return)]
    ok = len(rets) == 1 and rets[0].value is not None and \
        ast.unparse(rets[0].value) == f"{f.params[0]}.instruction_memory.instruction_at_address({f.params[0]}.program_counter)"
    r.check(ok, "RiscvArchitecturalState.instruction_at_pc", f.loc(), "instruction_at_pc no longer asks the instruction memory about program_counter")
    # the cache system's own fill
    ic = m.cls("InstructionMemoryCacheSystem")
    fill = m.method(ic, "_read_block_from_memory", own=True)
    from ..cacheshape import WORD_ADDRS, fill_form
    form = fill_form(m, fill)
    ok = False
    if form is not None:
        addr_ok = {w.format(i="_c0") for w in WORD_ADDRS}
        a = next((x for x in addr_ok if x in form["elt"]), None)
        ok = a is not None and form["iter"] == "range(P0.cache.num_words_in_block)" and form["elt"] == (
            f"cases[P0.instruction_memory.instruction_at_address(address={a})]{{EmptyInstruction() #1; "
            f"P0.instruction_memory.read_instruction(address={a}) #2}}")
        for n in ast.walk(form["elt_node"]):
            if isinstance(n, ast.Call) and isinstance(n.func, ast.Attribute) and n.func.attr == "read_instruction":
                sanctioned.add("fill")
    r.check(ok, "InstructionMemoryCacheSystem._read_block_from_memory", fill.loc(),
            "the block fill is not `read_instruction(a) if instruction_at_address(a) else EmptyInstruction()` for "
            "a = block_alinged_address + 4*i, i in range(num_words_in_block)", None if form is None else {"iter": form["iter"], "elt": form["elt"]})
    ri = m.method(ic, "read_instruction", own=True)
    rets = [n for n in walk_no_nested(ri.node) if isinstance(n, ast.Return)]
    ok = len(rets) == 1 and rets[0].value is not None and ast.unparse(rets[0].value).endswith("[decoded_address.block_offset]")
    if ok:
        # the subscripted list is the first result of self._read_block(decoded_address)
        base = rets[0].value.value  # type: ignore[attr-defined]
        ok = isinstance(base, ast.Name) and any(
            isinstance(n, ast.Assign) and isinstance(n.targets[0], ast.Tuple) and isinstance(n.targets[0].elts[0], ast.Name)
            and n.targets[0].elts[0].id == base.id and isinstance(n.value, ast.Call) and isinstance(n.value.func, ast.Attribute)
            and n.value.func.attr == "_read_block" for n in walk_no_nested(ri.node))
    r.check(ok, "InstructionMemoryCacheSystem.read_instruction|select", ri.loc(),
            "read_instruction does not return block[decoded_address.block_offset] of the looked-up block")
    # _read_block: fill on miss then allocate
    rb = m.method(ic, "_read_block", own=True)
    for p in function_paths(rb.node):
        facts = set()
        names = []
        for e in p.events:
            if e.kind == "test":
                facts |= facts_of(e.node, bool(e.pol))
            for x in event_exprs(e):
                for c in calls_in(x):
                    if isinstance(c.func, ast.Attribute):
                        names.append(c.func.attr)
        miss = any(a.startswith("None is ") and v for a, v in facts)
        want = ["read_block", "_read_block_from_memory", "write_block"] if miss else ["read_block"]
        r.check(names == want, f"InstructionMemoryCacheSystem._read_block|{'miss' if miss else 'hit'}", rb.loc(),
                f"_read_block {'miss' if miss else 'hit'} path performs {names}, expected {want}")
    # every other caller
    for f in all_functions(m, skip_cli=True):
        for c in calls_in(f.node):
            if f is fill and "fill" in sanctioned:
                continue  # the guarded fill, judged above on its normal form
            if isinstance(c.func, ast.Attribute) and c.func.attr == "read_instruction" and id(c) not in sanctioned:
                r.check(False, f"{short(f.qname)}|read_instruction", f.loc(c),
                        f"unexpected fetch site `{seg(f, c)}` in {short(f.qname)}: the fetch counter would no longer equal "
                        "the number of executed instructions")
    r.floor(8)

    from ..wiring import wiring_rule
    wiring_rule(ctx, "R11.wire", which=("instruction",))
    from ..wiring import metrics_identity_rule
    metrics_identity_rule(ctx, "R11.metrics")
    acct_rule(ctx, "R11.acct", only=lambda f: f.name == "read_instruction")
    hit_rule(ctx, "R11.hit")
    load_rules(ctx, "R11.load", icache_only=True)
    from .c10 import perset_rule
    perset_rule(ctx, "R11.perset")
    # the hit counter equals a reference cache's only if the set evicts the block its policy names and tells the policy of every access
    from ..cachesetspec import notify_rule
    notify_rule(ctx, "R11.notify")

    r = ctx.rule("R11.deleg", "the cache system delegates program storage to the lower instruction memory")
    from ..flowspec import signature
    for name, returns in (("instruction_at_address", True), ("has_instructions", True), ("get_representation", True), ("get_address_range", True),
                          ("write_instruction", False), ("write_instructions", False)):
        f = m.method(ic, name, own=True)
        ps = f.params[1:]
        call = f"self.instruction_memory.{name}({', '.join(ps)})"
        head = f"def {name}({', '.join(['self'] + ps)}):\n"
        refs = [head + f"    return {call}\n", head + f"    return bool({call})\n"] if returns else [head + f"    {call}\n", head + f"    return {call}\n"]
        got = signature(m, f)
        ok = any(signature(m, f, ref) == got for ref in refs)
        r.check(ok, f"InstructionMemoryCacheSystem.{name}", f.loc(), f"{name} does not (only) delegate to self.instruction_memory.{name} with its own arguments: "
                f"returns {list(got[0])}, effects {[e[1] for e in got[1]]}")
    r.floor(6)


def _bound_to_pc(f, a: ast.AST) -> bool:
    if not isinstance(a, ast.Name):
        return False
    for n in walk_no_nested(f.node):
        if isinstance(n, ast.Assign) and isinstance(n.targets[0], ast.Name) and n.targets[0].id == a.id:
            return ast.unparse(n.value) == "state.program_counter"
    return False
