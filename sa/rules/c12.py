"""C12 -- write-through keeps memory current; write-back never loses a written value.

R12.wt    every accepted path of WT write_* writes the lower memory with the method's
          own (address, value), exactly once; the cache copy is updated only on a hit
          (no allocate); WT never writes lower memory on a read path.
R12.wb    at every cache.write_block site of the write-back system the displaced block
          is bound and, on the path where it is not None, written back before returning.
R12.set   CacheSet.write: the victim's (address, values) are captured under its dirty
          bit *before* it is overwritten; every written/filled block is marked dirty;
          a hit never reports a displaced block.
R12.view  the memory table shows the lower memory.
"""
from __future__ import annotations

import ast

from ..cachepaths import WRITES, self_attr
from ..common import seg, short
from ..guards import facts_of
from ..model import AnalysisError, walk_no_nested
from ..paths import calls_in, event_exprs, function_paths
from ..report import Ctx

EXPLANATION = (
    "Decides the mechanisms the two invariants rest on, path by path: write-through reaches the "
    "backing memory on every accepted write with the caller's own address and value and touches "
    "the cache only on a hit; every write-back site that can displace a block consumes the "
    "displaced block on the not-None path; the set captures a dirty victim before overwriting it "
    "and marks every written block dirty. The invariants themselves (backing memory equals logical "
    "memory outside resident blocks) range over reachable cache states and are not decided."
)
ASSUMPTIONS = ["tests on a path are not correlated (conservative for 'on every path')"]
TRUSTED = ["CPython ast", "sa.paths enumeration"]


def _calls_of(e, f):
    out = []
    for x in event_exprs(e):
        for c in calls_in(x):
            out.append(c)
    return out


def run(ctx: Ctx) -> None:
    m = ctx.model
    wt = m.cls("WriteThroughMemorySystem")
    wb = m.cls("WriteBackMemorySystem")

    r = ctx.rule("R12.wt", "WT: lower memory written on every accepted write; cache only on a hit")
    for name in WRITES:
        f = m.method(wt, name, own=True)
        sn = f.params[0]
        key0 = f"WriteThroughMemorySystem.{name}"
        n = 0
        hit_updates = 0
        for p in function_paths(f.node):
            if p.term == "raise":
                continue
            n += 1
            facts: set = set()
            memw = []
            cachew = []
            for e in p.events:
                if e.kind == "test":
                    facts |= facts_of(e.node, bool(e.pol))
                for c in _calls_of(e, f):
                    if isinstance(c.func, ast.Attribute) and self_attr(c.func.value, sn, "memory") and c.func.attr.startswith("write_"):
                        memw.append(c)
                    if isinstance(c.func, ast.Attribute) and self_attr(c.func.value, sn, "cache") and c.func.attr == "write_block":
                        cachew.append((c, set(facts)))
            label = "direct" if ("directly_write_to_lower_memory", True) in facts else \
                ("hit" if ("None is block_values", False) in facts else "miss" if ("None is block_values", True) in facts else "any")
            key = f"{key0}|{label}"
            r.inst(key, None)
            ok = len(memw) == 1 and memw[0].func.attr == name and [ast.unparse(a) for a in memw[0].args[:2]] == ["address", "value"]  # type: ignore[attr-defined]
            if not ok:
                r.viol(key, f.loc(memw[0] if memw else f.node),
                       f"{key0}: a {label} path performs {len(memw)} lower-memory write(s) "
                       f"{[seg(f, c) for c in memw]}; write-through requires exactly `self.memory.{name}(address, value)`",
                       ["path assumptions:"] + p.assumptions())
            for c, fs in cachew:
                hit = any(a.startswith("None is ") and v is False for a, v in fs)
                if not hit or label == "direct":
                    r.viol(f"{key}|allocate", f.loc(c), f"{key0}: the cache is written on a path that did not establish a hit "
                           "(write-through is no-write-allocate; a block filled here would never be marked resident consistently)",
                           ["path assumptions:"] + p.assumptions())
            if label == "hit" and cachew:
                hit_updates += 1
            if label == "hit" and not cachew:
                r.viol(f"{key}|stale", f.loc(), f"{key0}: a hit path does not update the resident block: the cache "
                       "would keep a stale copy", ["path assumptions:"] + p.assumptions())
        if hit_updates == 0:
            r.viol(f"{key0}|never-updates-cache", f.loc(), f"{key0}: no hit path updates the resident block: the cache "
                   "would keep a stale copy of a written word")
        if n < 2:
            raise AnalysisError(f"R12.wt: {key0} has only {n} non-raising paths")
    # WT never writes lower memory while reading
    for name, f in sorted(wt.methods.items()):
        if name in WRITES or name == "__init__":
            continue
        bad = [c for c in calls_in(f.node) if isinstance(c.func, ast.Attribute) and self_attr(c.func.value, f.params[0], "memory")
               and c.func.attr.startswith("write_")]
        r.check(not bad, f"WriteThroughMemorySystem.{name}|no-memory-write", f.loc(bad[0] if bad else None),
                f"WriteThroughMemorySystem.{name} writes the lower memory")
    r.floor(10)

    r = ctx.rule("R12.wb", "WB: a displaced block is bound and written back on the not-None path")
    # On the normal form of every write-back method that allocates: the effect right after W = cache.write_block(..) is
    # _write_block_to_memory(decoded_address=W[1][0], block=W[1][1]) exactly when W happened and W[1] is not None -- nothing that
    # can raise in between (a store that crosses a word boundary does), whatever the displaced block is called or how it is unpacked.
    import re as _re
    from ..flowspec import _cond_ast
    from ..parsershape import normal_flow
    sites = 0
    for name, f in sorted(wb.methods.items()):
        fl = normal_flow(m, f)
        pr = fl.cprinter
        calls = [e for e in fl.effects if e.kind in ("call", "raise")]
        for i, e in enumerate(calls):
            if not (e.kind == "call" and isinstance(e.expr, ast.Call) and isinstance(e.expr.func, ast.Attribute) and e.expr.func.attr == "write_block"
                    and pr.show(e.expr.func.value).split("@")[0] == "P0.cache"):
                continue
            sites += 1
            key = f"WriteBackMemorySystem.{name}|write_block"
            W = _re.sub(r"@\d+", "", pr.show(e.expr))
            nxt = calls[i + 1] if i + 1 < len(calls) else None
            ok = nxt is not None and nxt.kind == "call" and isinstance(nxt.expr, ast.Call) and isinstance(nxt.expr.func, ast.Attribute) \
                and nxt.expr.func.attr == "_write_block_to_memory"
            if not ok:
                between = nxt
                later = any(x.kind == "call" and isinstance(x.expr, ast.Call) and isinstance(x.expr.func, ast.Attribute) and x.expr.func.attr == "_write_block_to_memory"
                            for x in calls[i + 1:])
                if later and between is not None:
                    r.check(False, key + "|then-write-back", f.loc(between.node),
                            f"{short(f.qname)}: `{_re.sub(r'@[0-9]+', '', pr.show(between.expr))[:90]}` runs between cache.write_block (which may displace a written block) "
                            "and the write-back of the displaced block; if it raises (a store that crosses a word boundary does), the displaced block is "
                            "neither resident nor in backing memory")
                else:
                    r.check(False, key, f.loc(e.node), f"{short(f.qname)}: the displaced block returned by cache.write_block is dropped: an evicted dirty block would be lost")
                continue
            got = _re.sub(r"@\d+", "", pr.show(nxt.expr))
            want = f"P0._write_block_to_memory(block={W}[1][1], decoded_address={W}[1][0])"
            r.check(got == want, key, f.loc(nxt.node), f"{short(f.qname)}: the displaced block is written back as `{got[:160]}`; it must be "
                    "_write_block_to_memory(<displaced address>, <displaced words>) of the pair cache.write_block returned")
            disp = ast.Subscript(value=e.expr, slice=ast.Constant(value=1), ctx=ast.Load())
            want_c = ast.BoolOp(op=ast.And(), values=[_cond_ast(e.cond), ast.Compare(left=disp, ops=[ast.IsNot()], comparators=[ast.Constant(value=None)])]) \
                if e.cond else ast.Compare(left=disp, ops=[ast.IsNot()], comparators=[ast.Constant(value=None)])
            t = pr._tables([pr._bool(_cond_ast(nxt.cond)), pr._bool(want_c)])
            r.check(t is not None and t[1][0] == t[1][1], key + "|when", f.loc(nxt.node),
                    f"{short(f.qname)}: after cache.write_block the displaced block is not written back exactly on the path where it is not None "
                    f"(it happens when `{pr.show_cond(nxt.cond)[:200]}`): an evicted dirty block would be lost")
    if sites < 4:
        raise AnalysisError(f"R12.wb: only {sites} cache.write_block site(s) in the write-back system")

    from .c03 import writeback_rule
    writeback_rule(ctx, r)

    from ..cachesetspec import dirty_rule
    dirty_rule(ctx, "R12.set")
    r = ctx.rule("R12.set", "")
    # CacheBlock.write stores values, address and validity
    f = m.method("CacheBlock", "write", own=True)
    stored = {t.attr for n in walk_no_nested(f.node) if isinstance(n, ast.Assign) for t in n.targets
              if isinstance(t, ast.Attribute) and isinstance(t.value, ast.Name) and t.value.id == f.params[0]}
    r.check({"values", "valid_bit", "decoded_address"} <= stored, "CacheBlock.write", f.loc(),
            f"CacheBlock.write stores only {sorted(stored)} (values, valid_bit, decoded_address needed)")

    from ..lanerule import lane_rule
    from ..siblingrule import sibling_rule
    from .c03 import alloc_rule
    lane_rule(ctx, "R12.lane")
    sibling_rule(ctx, "R12.sib", groups=[("WriteBackMemorySystem", "write"), ("WriteThroughMemorySystem", "write")], mode="data")
    alloc_rule(ctx, "R12.alloc")

    r = ctx.rule("R12.view", "memory table exposes the lower memory")
    f = m.method("BaseCacheMemorySystem", "wordwise_repr", own=True)
    from ..flowspec import signature
    ok = signature(m, f) == signature(m, f, f"def wordwise_repr({f.params[0]}):\n    return {f.params[0]}.memory.wordwise_repr()\n")
    r.check(ok, "BaseCacheMemorySystem.wordwise_repr", f.loc(), "the memory table is no longer derived from the lower memory's wordwise_repr()")
    # one location, one block: the decomposition works on the 32-bit wrapped address (aliases such as -4 / 0xFFFFFFFC must share a tag)
    from .c03 import addr_rule
    addr_rule(ctx, "R12.addr")
    # a reset must not leave blocks behind: a stale dirty block would later be written back into the fresh memory
    from ..resetrule import check_reset
    r = ctx.rule("R12.reset", "reset() rebuilds the data cache and clears the backing memory (no stale dirty block survives)")
    check_reset(ctx, r, "Memory", fields={"memory_file": "empty"})
    check_reset(ctx, r, "BaseCacheMemorySystem", fields={"cache": "reconstruct", "memory": "delegate"})
    r.floor(2)
