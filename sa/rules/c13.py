"""C13 -- lifecycle: done is stable, run == stepping, reload == fresh load.

R13.guard  no effect once done: in step()/half-steps every first effect on every
           path is dominated by an is_done() test taken on its false branch
           (composed through guard summaries of self-guarded callees).
R13.run    run() is `while not is_done(): step()`; its only other writes are the
           wall-clock fields of the performance metrics.
R13.ret    step() returns `not self.is_done()` on every path.
R13.pure   is_done() and everything it calls is effect-free.
R13.done   Pipeline.is_done is `exit_code is not None or (is_empty() and not
           instruction_at_pc())`; TOY is_done is `not instruction_loaded()`.
R13.load   load_program: data memory and instruction memory are reset before
           the parser runs, on every path; TOY rebinds its state to a fresh
           ToyArchitecturalState before parsing.
R13.reset  the reset() methods on the load path rebuild every field that
           execution or an earlier (failed) load can have changed.
"""
from __future__ import annotations

import ast

from ..common import effects, seg, short
from ..guards import GuardAnalysis, facts_of
from ..model import AnalysisError, walk_no_nested
from ..paths import calls_in, event_exprs, function_paths
from ..report import Ctx
from ..resetrule import check_reset

EXPLANATION = (
    "Decides the structural half of the lifecycle property: (1) guard dominance -- on every "
    "enumerated path of RiscvSimulation.step and the TOY step functions the first event with a "
    "non-empty interprocedural write-effect summary is preceded by an is_done() test on its false "
    "branch, so a done simulation cannot be changed by step/run; (2) is_done() itself is pure, "
    "so done stays done; (3) run() is literally the step loop; (4) load_program resets both "
    "memories before parsing on every path and the reset methods rebuild every mutable field."
)
ASSUMPTIONS = [
    "loops are unfolded 0 and 1 times; tests are not correlated (conservative for dominance rules)",
    "wall-clock fields _start/_execution_time_s are not simulated state (tabled exemption)",
]
TRUSTED = ["CPython ast", "sa.effects summaries", "sa.paths enumeration"]

TIMER_FIELDS = {"_start", "_execution_time_s"}


def _not_done(facts: set) -> bool:
    return any(a.endswith(".is_done()") and v is False for a, v in facts)


def guard(ctx: Ctx) -> GuardAnalysis:
    return GuardAnalysis(effects(ctx), lambda f, facts: _not_done(facts),
                         exempt_field=lambda p: bool(p) and p[-1] in TIMER_FIELDS,
                         describe="`not self.is_done()`")


def run(ctx: Ctx) -> None:
    m = ctx.model
    eff = effects(ctx)
    ga = guard(ctx)

    r = ctx.rule("R13.guard", "every first effect of step functions is dominated by a not-done test")
    targets = [("RiscvSimulation", "step"), ("ToySimulation", "first_cycle_step"),
               ("ToySimulation", "second_cycle_step"), ("ToySimulation", "step"),
               ("ToySimulation", "single_step"), ("RiscvSimulation", "run"), ("ToySimulation", "run")]
    for cn, mn in targets:
        f = m.method(cn, mn, own=True)
        rep = ga.analyse(f)
        key = f"{cn}.{mn}"
        r.inst(key, {"paths": rep.paths, "effectful_first_events": rep.effect_events,
                     "self_guarded_callees": sorted(short(x) for x in rep.guarded_callees)})
        s = eff.solved(f)
        if not [w for w in s.writes.values() if not (w.path and w.path[-1] in TIMER_FIELDS)]:
            raise AnalysisError(f"R13.guard {key}: no write effect found at all -- effect analysis lost the step path")
        for node, msg, labels in rep.problems:
            r.viol(f"{key}|{seg(f, node)}", f.loc(node), f"{key}: {msg}", ["path:"] + labels)
    r.floor(7)

    r = ctx.rule("R13.run", "run() is the step loop plus wall-clock bookkeeping")
    for cn in ("RiscvSimulation", "ToySimulation"):
        f = m.method(cn, "run", own=True)
        key = f"{cn}.run"
        loops = [n for n in walk_no_nested(f.node) if isinstance(n, (ast.While, ast.For))]
        ok = False
        for lp in loops:
            if isinstance(lp, ast.While) and _not_done(facts_of(lp.test, True)):
                calls = [c for st in lp.body for c in calls_in(st)]
                if any(isinstance(c.func, ast.Attribute) and c.func.attr == "step"
                       and isinstance(c.func.value, ast.Name) and c.func.value.id == f.params[0] for c in calls):
                    ok = True
        r.check(ok, key, f.loc(), f"{key} is not `while not self.is_done(): self.step()`")
        # every write of run() outside self.step() is a wall-clock field
        step = m.method(cn, "step")
        s = eff.solved(f)
        for w in s.writes.values():
            via_step = bool(w.chain) and w.chain[0].startswith(f"{f.qname} -> {step.qname} @")
            if not via_step and not (w.path and w.path[-1] in TIMER_FIELDS):
                r.viol(f"{key}|{w.text}", w.origin, f"{key} writes simulated state outside step(): {w.describe()}",
                       list(w.chain))
    r.floor(2)

    r = ctx.rule("R13.ret", "step() returns `not self.is_done()` on every path")
    for cn in ("RiscvSimulation", "ToySimulation"):
        f = m.method(cn, "step", own=True)
        key = f"{cn}.step"
        n = 0
        for p in function_paths(f.node):
            if p.term == "raise":
                continue
            n += 1
            ok = p.term == "return" and isinstance(p.term_node, ast.Return) and p.term_node.value is not None \
                and _not_done(facts_of(p.term_node.value, True)) and len(facts_of(p.term_node.value, True)) == 1
            if not ok:
                r.viol(f"{key}|return", f.loc(p.term_node or f.node),
                       f"{key}: a path does not end in `return not self.is_done()`", p.labels())
        r.inst(key, {"non_raising_paths": n})
    r.floor(2)

    r = ctx.rule("R13.pure", "is_done() closure is effect-free")
    for cn in ("RiscvSimulation", "ToySimulation"):
        f = m.method(cn, "is_done", own=True)
        s = eff.solved(f)
        key = f"{cn}.is_done"
        r.inst(key, {"closure_functions": len(eff.closure(f))})
        if s.unresolved:
            raise AnalysisError(f"R13.pure {key}: unresolved call {sorted(s.unresolved)[0]}")
        for w in s.writes.values():
            r.viol(f"{key}|{short(w.where)}:{w.text}", w.origin, f"{key} can write {w.describe()}", list(w.chain))
    r.floor(2)

    done_rule(ctx, "R13.done")
    load_rules(ctx)


def done_rule(ctx: Ctx, rid: str) -> None:
    m = ctx.model
    r = ctx.rule(rid, "definition of done")
    f = m.method("Pipeline", "is_done", own=True)
    rets = [n for n in walk_no_nested(f.node) if isinstance(n, ast.Return)]
    ok = False
    if len(rets) == 1 and isinstance(rets[0].value, ast.BoolOp) and isinstance(rets[0].value.op, ast.Or):
        vals = rets[0].value.values
        a = {x for v in vals[:1] for x in facts_of(v, True)}
        rest = ast.BoolOp(op=ast.Or(), values=vals[1:]) if len(vals) > 2 else vals[1]
        b = facts_of(rest, True)
        ok = any(t.startswith("None is ") and t.endswith(".exit_code") and v is False for t, v in a) \
            and any(t.endswith(".is_empty()") and v for t, v in b) \
            and any(t.endswith(".instruction_at_pc()") and v is False for t, v in b) and len(b) == 2
    r.check(ok, "Pipeline.is_done", f.loc(),
            "Pipeline.is_done is not `exit_code is not None or (is_empty() and not instruction_at_pc())`",
            seg(f, rets[0]) if rets else None)
    f = m.method("Pipeline", "is_empty", own=True)
    txt = " ".join(ast.unparse(f.node).split())
    ok = "EmptyInstruction" in txt and "pipeline_registers" in txt
    # the last latch feeds no stage and must not keep the pipeline "busy": recognisable bad shapes only
    for n in walk_no_nested(f.node):
        if isinstance(n, ast.comprehension) or isinstance(n, ast.For):
            it = n.iter
            if isinstance(it, ast.Attribute) and it.attr == "pipeline_registers":
                ok = False  # iterates every latch including the last
            if isinstance(it, ast.Subscript) and isinstance(it.slice, ast.Slice) and it.slice.upper is None:
                ok = False
    r.check(ok, "Pipeline.is_empty", f.loc(), "Pipeline.is_empty no longer tests all latches but the last for EmptyInstruction")
    f = m.method("ToySimulation", "is_done", own=True)
    rets = [n for n in walk_no_nested(f.node) if isinstance(n, ast.Return)]
    ok = len(rets) == 1 and rets[0].value is not None and \
        facts_of(rets[0].value, True) == {("self.state.instruction_loaded()", False)}
    r.check(ok, "ToySimulation.is_done", f.loc(), "TOY is_done is not `not self.state.instruction_loaded()`")
    f = m.method("ToyArchitecturalState", "instruction_loaded", own=True)
    rets = [n for n in walk_no_nested(f.node) if isinstance(n, ast.Return)]
    ok = len(rets) == 1 and rets[0].value is not None and \
        facts_of(rets[0].value, True) == {("None is self.loaded_instruction", False)}
    r.check(ok, "ToyArchitecturalState.instruction_loaded", f.loc(),
            "instruction_loaded is not `self.loaded_instruction is not None`")


def load_rules(ctx: Ctx, rid: str = "R13.load", icache_only: bool = False) -> None:
    m = ctx.model
    eff = effects(ctx)
    r = ctx.rule(rid, "load_program resets both memories before parsing, on every path")
    f = m.method("RiscvSimulation", "load_program", own=True)
    key = "RiscvSimulation.load_program"
    npaths = 0
    for p in function_paths(f.node):
        npaths += 1
        seen: set = set()
        parsed = False
        for e in p.events:
            for x in event_exprs(e):
                for c in calls_in(x):
                    if not isinstance(c.func, ast.Attribute):
                        continue
                    chain = ast.unparse(c.func)
                    if chain.endswith(".state.memory.reset"):
                        seen.add("memory")
                    elif chain.endswith(".state.instruction_memory.reset"):
                        seen.add("instruction_memory")
                    elif c.func.attr == "parse":
                        res = eff.ts.resolve_call(c, f)
                        if any(t.qname.endswith("RiscvParser.parse") for t in res.targets):
                            parsed = True
                            for need in (("instruction_memory",) if icache_only else ("memory", "instruction_memory")):
                                if need not in seen:
                                    r.viol(f"{key}|{need}", f.loc(c),
                                           f"{key}: parser runs before state.{need}.reset() on some path",
                                           p.labels())
        if p.term != "raise" and not parsed:
            r.viol(f"{key}|parse", f.loc(), f"{key}: a path never reaches RiscvParser.parse", p.labels())
    r.inst(key, {"paths": npaths})

    f = m.method("ToySimulation", "load_program", own=True)
    key = "ToySimulation.load_program"
    npaths = 0
    for p in ([] if icache_only else function_paths(f.node)):
        npaths += 1
        fresh = False
        parsed = False
        for e in p.events:
            n = e.node
            if e.kind == "stmt" and isinstance(n, ast.Assign) and any(
                    isinstance(t, ast.Attribute) and t.attr == "state" and isinstance(t.value, ast.Name)
                    and t.value.id == f.params[0] for t in n.targets):
                c = n.value
                fresh = isinstance(c, ast.Call) and m.resolve_class(f.module, c.func) is m.cls("ToyArchitecturalState")
            for x in event_exprs(e):
                for c in calls_in(x):
                    if isinstance(c.func, ast.Attribute) and c.func.attr == "parse":
                        res = eff.ts.resolve_call(c, f)
                        if any(t.qname.endswith("ToyParser.parse") for t in res.targets):
                            parsed = True
                            st_arg = [k.value for k in c.keywords if k.arg == "state"] + list(c.args[1:2])
                            same = bool(st_arg) and ast.unparse(st_arg[0]) == f"{f.params[0]}.state"
                            if not (fresh and same):
                                r.viol(f"{key}|fresh-state", f.loc(c),
                                       f"{key}: parser does not run on a freshly constructed ToyArchitecturalState",
                                       p.labels())
        if p.term != "raise" and not parsed:
            r.viol(f"{key}|parse", f.loc(), f"{key}: a path never reaches ToyParser.parse", p.labels())
    if not icache_only:
        r.inst(key, {"paths": npaths})
    r.floor(1 if icache_only else 2)

    r = ctx.rule(rid.split(".")[0] + ".reset", "reset() rebuilds every field execution or a failed load can change")
    if not icache_only:
        check_reset(ctx, r, "Memory", fields={"memory_file": "empty"})
        check_reset(ctx, r, "BaseCacheMemorySystem", fields={"cache": "reconstruct", "memory": "delegate"})
    check_reset(ctx, r, "InstructionMemory", fields={"instructions": "empty"})
    check_reset(ctx, r, "InstructionMemoryCacheSystem",
                fields={"cache": "reconstruct", "instruction_memory": "delegate",
                        "hits": "init", "accesses": "init", "last_was_hit": "init"})
    r.floor(2 if icache_only else 4)
