"""C13 -- lifecycle: done is stable, run == stepping, reload == fresh load.

R13.guard  no effect once done: in step()/half-steps every first effect on every
           path is dominated by an is_done() test taken on its false branch
           (composed through guard summaries of self-guarded callees).
R13.run    run() is `while not is_done(): step()`; its only other writes are the
           wall-clock fields of the performance metrics.
R13.ret    step() returns `not self.is_done()` on every path.
R13.pure   is_done() and everything it calls is effect-free.
R13.done   Pipeline.is_done is `exit_code is not None or (is_empty() and not
           instruction_at_pc())`; TOY is_done is `not instruction_loaded()`.
R13.load   load_program: data memory and instruction memory are reset before
           the parser runs, on every path; TOY rebinds its state to a fresh
           ToyArchitecturalState before parsing.
R13.reset  the reset() methods on the load path rebuild every field that
           execution or an earlier (failed) load can have changed.
"""
from __future__ import annotations

import ast

from ..common import effects, seg, short
from ..guards import GuardAnalysis, facts_of
from ..model import AnalysisError, walk_no_nested
from ..paths import calls_in, event_exprs, function_paths
from ..report import Ctx
from ..resetrule import check_reset

EXPLANATION = (
    "Decides the structural half of the lifecycle property: (1) guard dominance -- on every "
    "enumerated path of RiscvSimulation.step and the TOY step functions the first event with a "
    "non-empty interprocedural write-effect summary is preceded by an is_done() test on its false "
    "branch, so a done simulation cannot be changed by step/run; (2) is_done() itself is pure, "
    "so done stays done; (3) run() is literally the step loop; (4) load_program resets both "
    "memories before parsing on every path and the reset methods rebuild every mutable field."
)
ASSUMPTIONS = [
    "loops are unfolded 0 and 1 times; tests are not correlated (conservative for dominance rules)",
    "wall-clock fields _start/_execution_time_s are not simulated state (tabled exemption)",
]
TRUSTED = ["CPython ast", "sa.effects summaries", "sa.paths enumeration"]

TIMER_FIELDS = {"_start", "_execution_time_s"}


def _not_done(facts: set) -> bool:
    return any(a.endswith(".is_done()") and v is False for a, v in facts)


def guard(ctx: Ctx) -> GuardAnalysis:
    return GuardAnalysis(effects(ctx), lambda f, facts: _not_done(facts),
                         exempt_field=lambda p: bool(p) and p[-1] in TIMER_FIELDS,
                         describe="`not self.is_done()`")


def run(ctx: Ctx) -> None:
    m = ctx.model
    eff = effects(ctx)
    ga = guard(ctx)

    r = ctx.rule("R13.guard", "every first effect of step functions is dominated by a not-done test")
    targets = [("RiscvSimulation", "step"), ("ToySimulation", "first_cycle_step"),
               ("ToySimulation", "second_cycle_step"), ("ToySimulation", "step"),
               ("ToySimulation", "single_step"), ("RiscvSimulation", "run"), ("ToySimulation", "run")]
    for cn, mn in targets:
        f = m.method(cn, mn, own=True)
        rep = ga.analyse(f)
        key = f"{cn}.{mn}"
        r.inst(key, {"paths": rep.paths, "effectful_first_events": rep.effect_events,
                     "self_guarded_callees": sorted(short(x) for x in rep.guarded_callees)})
        s = eff.solved(f)
        if not [w for w in s.writes.values() if not (w.path and w.path[-1] in TIMER_FIELDS)]:
            raise AnalysisError(f"R13.guard {key}: no write effect found at all -- effect analysis lost the step path")
        for node, msg, labels in rep.problems:
            r.viol(f"{key}|{seg(f, node)}", f.loc(node), f"{key}: {msg}", ["path:"] + labels)
    r.floor(7)

    run_rule(ctx, "R13.run")

    r = ctx.rule("R13.ret", "step() returns `not self.is_done()` on every path")
    _ret_rule_body(ctx, r)
    _rest_of_run(ctx)


def run_rule(ctx: Ctx, rid: str = "R13.run", classes=("RiscvSimulation", "ToySimulation")) -> None:
    m = ctx.model
    eff = effects(ctx)
    r = ctx.rule(rid, "run() is the step loop plus wall-clock bookkeeping")
    for cn in classes:
        f = m.method(cn, "run", own=True)
        key = f"{cn}.run"
        loops = [n for n in walk_no_nested(f.node) if isinstance(n, (ast.While, ast.For))]
        ok = False
        for lp in loops:
            if isinstance(lp, ast.While) and _not_done(facts_of(lp.test, True)):
                calls = [c for st in lp.body for c in calls_in(st)]
                if any(isinstance(c.func, ast.Attribute) and c.func.attr == "step"
                       and isinstance(c.func.value, ast.Name) and c.func.value.id == f.params[0] for c in calls):
                    ok = True
        r.check(ok, key, f.loc(), f"{key} is not `while not self.is_done(): self.step()`")
        # every write of run() outside self.step() is a wall-clock field
        step = m.method(cn, "step")
        s = eff.solved(f)
        for w in s.writes.values():
            via_step = bool(w.chain) and w.chain[0].startswith(f"{f.qname} -> {step.qname} @")
            if not via_step and not (w.path and w.path[-1] in TIMER_FIELDS):
                r.viol(f"{key}|{w.text}", w.origin, f"{key} writes simulated state outside step(): {w.describe()}",
                       list(w.chain))
    r.floor(len(classes))


def _ret_rule_body(ctx: Ctx, r) -> None:
    m = ctx.model
    for cn in ("RiscvSimulation", "ToySimulation"):
        f = m.method(cn, "step", own=True)
        key = f"{cn}.step"
        n = 0
        for p in function_paths(f.node):
            if p.term == "raise":
                continue
            n += 1
            ok = p.term == "return" and isinstance(p.term_node, ast.Return) and p.term_node.value is not None \
                and _not_done(facts_of(p.term_node.value, True)) and len(facts_of(p.term_node.value, True)) == 1
            if not ok and p.term == "return" and isinstance(p.term_node, ast.Return) and isinstance(p.term_node.value, ast.Constant) \
                    and isinstance(p.term_node.value.value, bool):
                # a guard clause: `if self.is_done(): return False` -- the constant is what `not self.is_done()` evaluates to
                # when the test on this very path says so and nothing but tests happened in between
                tests = [e for e in p.events if e.kind == "test"]
                only_tests = all(e.kind in ("test", "return") for e in p.events)
                done_facts = set()
                for e in tests:
                    done_facts |= {(a, v) for a, v in facts_of(e.node, bool(e.pol)) if a.endswith(".is_done()")}
                ok = only_tests and len(done_facts) == 1 and next(iter(done_facts))[1] == (not p.term_node.value.value)
            if not ok:
                r.viol(f"{key}|return", f.loc(p.term_node or f.node),
                       f"{key}: a path does not end in `return not self.is_done()`", p.labels())
        r.inst(key, {"non_raising_paths": n})
    r.floor(2)


def _rest_of_run(ctx: Ctx) -> None:
    m = ctx.model
    eff = effects(ctx)
    r = ctx.rule("R13.pure", "is_done() closure is effect-free")
    for cn in ("RiscvSimulation", "ToySimulation"):
        f = m.method(cn, "is_done", own=True)
        s = eff.solved(f)
        key = f"{cn}.is_done"
        r.inst(key, {"closure_functions": len(eff.closure(f))})
        if s.unresolved:
            raise AnalysisError(f"R13.pure {key}: unresolved call {sorted(s.unresolved)[0]}")
        for w in s.writes.values():
            r.viol(f"{key}|{short(w.where)}:{w.text}", w.origin, f"{key} can write {w.describe()}", list(w.chain))
    r.floor(2)

    done_rule(ctx, "R13.done")
    load_rules(ctx)
    from ..parserfresh import fresh_rule
    fresh_rule(ctx, "R13.fresh", ("RiscvParser", "ToyParser"))


def done_rule(ctx: Ctx, rid: str) -> None:
    """The definitions of "done" as truth functions (sa.flowspec.same_truth_function): early returns,
    nested ifs or one boolean expression are the same thing."""
    from ..flowspec import same_truth_function
    from ..parsershape import normal_flow
    m = ctx.model
    r = ctx.rule(rid, "definition of done (truth-function comparison)")
    f = m.method("RiscvSimulation", "is_done")
    ok, shown = same_truth_function(m, f, "self.state.pipeline.is_done()")
    r.check(ok, "RiscvSimulation.is_done", f.loc(), f"RiscvSimulation.is_done is `{shown}`, not the pipeline's `is_done()`: execution would end on something "
            "other than `the pc holds no instruction` / `an exit ecall was executed`")
    f = m.method("Pipeline", "is_done")
    ok, shown = same_truth_function(m, f, "self.state.exit_code is not None or (self.is_empty() and not self.state.instruction_at_pc())")
    r.check(ok, "Pipeline.is_done", f.loc(),
            f"Pipeline.is_done is `{shown}`, not `exit_code is not None or (is_empty() and not instruction_at_pc())`")
    # is_empty: every latch but the last holds an EmptyInstruction
    f = m.method("Pipeline", "is_empty")
    fl = normal_flow(m, f)
    elts = ("Eq(EmptyInstruction, type(_c0.instruction))", "isinstance(_c0.instruction, EmptyInstruction)")
    # all latches but the last one (which feeds no stage)
    its = ("P0.pipeline_registers[:USub(1)]", "P0.pipeline_registers[:Sub(P0.num_stages, 1)]", "P0.pipeline_registers[:Sub(len(P0.pipeline_registers), 1)]")
    ok = len(fl.returns) == 1 and fl.canon_cond(fl.returns[0].cond) == "TRUE" and \
        fl.canon(fl.returns[0].value) in {f"B:not(any(not({e}) for _c0 in {i}))" for e in elts for i in its}
    r.check(ok, "Pipeline.is_empty", f.loc(), "Pipeline.is_empty no longer tests all latches but the last for EmptyInstruction "
            f"(recovered: {[fl.show(x.value) for x in fl.returns]})")
    # "the pc holds no instruction" is a membership test that answers for *any* pc: no range check, no other call on the way
    want = {
        ("RiscvArchitecturalState", "instruction_at_pc"): ("P0.instruction_memory.instruction_at_address(address=P0.program_counter)",
                                                           ["P0.instruction_memory.instruction_at_address(address=P0.program_counter)"]),
        ("InstructionMemoryCacheSystem", "instruction_at_address"): ("P0.instruction_memory.instruction_at_address(address=P1)",
                                                                      ["P0.instruction_memory.instruction_at_address(address=P1)"]),
        ("InstructionMemory", "instruction_at_address"): ("B:In(P1, P0.instructions)", []),
    }
    for (cn, fn), (val, calls) in want.items():
        f = m.method(cn, fn)
        fl = normal_flow(m, f)
        got_calls = sorted(fl.canon(e.expr) for e in fl.effects if e.kind == "call")
        others = [e for e in fl.effects if e.kind not in ("call",)]
        vals = [(fl.canon(x.value), fl.canon_cond(x.cond)) for x in fl.returns]
        ok = vals == [(val, "TRUE")] and got_calls == sorted(calls) and not others and not getattr(fl, "raises", [])
        r.check(ok, f"{cn}.{fn}", f.loc(), f"{cn}.{fn} must answer `is there an instruction at this address` for every address by the plain "
                f"membership test (no range check, nothing else that can raise); recovered: returns {vals}, calls {got_calls}")
    f = m.method("ToySimulation", "is_done")
    ok, shown = same_truth_function(m, f, "not self.state.instruction_loaded()")
    if not ok:
        # the same test with the (separately checked) predicate written out
        ok, shown = same_truth_function(m, f, "self.state.loaded_instruction is None")
    r.check(ok, "ToySimulation.is_done", f.loc(), f"TOY is_done is `{shown}`, not `not self.state.instruction_loaded()`")
    f = m.method("ToyArchitecturalState", "instruction_loaded")
    ok, shown = same_truth_function(m, f, "self.loaded_instruction is not None")
    r.check(ok, "ToyArchitecturalState.instruction_loaded", f.loc(),
            f"instruction_loaded is `{shown}`, not `self.loaded_instruction is not None`")


def load_rules(ctx: Ctx, rid: str = "R13.load", icache_only: bool = False) -> None:
    m = ctx.model
    eff = effects(ctx)
    r = ctx.rule(rid, "load_program resets both memories before parsing, on every path")
    f = m.method("RiscvSimulation", "load_program", own=True)
    key = "RiscvSimulation.load_program"
    npaths = 0
    for p in function_paths(f.node):
        npaths += 1
        seen: set = set()
        parsed = False
        for e in p.events:
            for x in event_exprs(e):
                for c in calls_in(x):
                    if not isinstance(c.func, ast.Attribute):
                        continue
                    chain = ast.unparse(c.func)
                    if chain.endswith(".state.memory.reset"):
                        seen.add("memory")
                    elif chain.endswith(".state.instruction_memory.reset"):
                        seen.add("instruction_memory")
                    elif c.func.attr == "parse":
                        res = eff.ts.resolve_call(c, f)
                        if any(t.qname.endswith("RiscvParser.parse") for t in res.targets):
                            parsed = True
                            for need in (("instruction_memory",) if icache_only else ("memory", "instruction_memory")):
                                if need not in seen:
                                    r.viol(f"{key}|{need}", f.loc(c),
                                           f"{key}: parser runs before state.{need}.reset() on some path",
                                           p.labels())
        if p.term != "raise" and not parsed:
            r.viol(f"{key}|parse", f.loc(), f"{key}: a path never reaches RiscvParser.parse", p.labels())
    r.inst(key, {"paths": npaths})

    f = m.method("ToySimulation", "load_program", own=True)
    key = "ToySimulation.load_program"
    npaths = 0
    for p in ([] if icache_only else function_paths(f.node)):
        npaths += 1
        fresh = False
        parsed = False
        for e in p.events:
            n = e.node
            if e.kind == "stmt" and isinstance(n, ast.Assign) and any(
                    isinstance(t, ast.Attribute) and t.attr == "state" and isinstance(t.value, ast.Name)
                    and t.value.id == f.params[0] for t in n.targets):
                c = n.value
                fresh = isinstance(c, ast.Call) and m.resolve_class(f.module, c.func) is m.cls("ToyArchitecturalState")
            for x in event_exprs(e):
                for c in calls_in(x):
                    if isinstance(c.func, ast.Attribute) and c.func.attr == "parse":
                        res = eff.ts.resolve_call(c, f)
                        if any(t.qname.endswith("ToyParser.parse") for t in res.targets):
                            parsed = True
                            st_arg = [k.value for k in c.keywords if k.arg == "state"] + list(c.args[1:2])
                            same = bool(st_arg) and ast.unparse(st_arg[0]) == f"{f.params[0]}.state"
                            if not (fresh and same):
                                r.viol(f"{key}|fresh-state", f.loc(c),
                                       f"{key}: parser does not run on a freshly constructed ToyArchitecturalState",
                                       p.labels())
        if p.term != "raise" and not parsed:
            r.viol(f"{key}|parse", f.loc(), f"{key}: a path never reaches ToyParser.parse", p.labels())
    if not icache_only:
        r.inst(key, {"paths": npaths})
    r.floor(1 if icache_only else 2)

    r = ctx.rule(rid.split(".")[0] + ".reset", "reset() rebuilds every field execution or a failed load can change")
    if not icache_only:
        check_reset(ctx, r, "Memory", fields={"memory_file": "empty"})
        check_reset(ctx, r, "BaseCacheMemorySystem", fields={"cache": "reconstruct", "memory": "delegate"})
    check_reset(ctx, r, "InstructionMemory", fields={"instructions": "empty"})
    check_reset(ctx, r, "InstructionMemoryCacheSystem",
                fields={"cache": "reconstruct", "instruction_memory": "delegate",
                        "hits": "init", "accesses": "init", "last_was_hit": "init"})
    r.floor(2 if icache_only else 4)
