"""C14 -- printed instruction text re-assembles to the same instruction.

R14.align   per mnemonic: the __repr__ template (literal segments + typed holes) parses as
            exactly one alternative of the instruction grammar; every hole's text language
            (decimal str(int), hex(int), x<0..31>) is included in the language of the token
            it lands on and in what int(., 0) accepts; and composing
              printed field -> results name -> constructor keyword (parser branch) ->
              constructor parameter chain -> stored field
            is the identity on field names (e.g. S-type: x{rs2}, {imm}(x{rs1})).
R14.jal     the J-type branch inverts printing the absolute address (linear forms).
R14.map     printed mnemonic = table key (R01.map).
R14.list    the listing is str() of each stored instruction in address order.
R14.sext    sign extension is idempotent for the printed immediates (R01.immw widths).
"""
from __future__ import annotations

import ast
from typing import Optional

from ..align import Hole, flatten, lang_decimal_int, lang_hex_int, match, register_numbers, template_of
from ..common import seg, short
from ..linear import linform
from ..model import AnalysisError, ClassInfo, FuncInfo, walk_no_nested
from ..paths import calls_in, function_paths
from ..ppgram import GrammarEval, Langs, int_accept
from ..report import Ctx
from .c01 import map_rule

EXPLANATION = (
    "Decides the print/parse round trip structurally for every operand combination at once: each "
    "format's __repr__ template is aligned against the pyparsing instruction grammar (evaluated "
    "from the AST) and must parse as exactly one alternative; the text language of every hole "
    "(decimal or hexadecimal rendering of an int, x<n>) is shown to be included in the language "
    "of the token it lands on by DFA inclusion; and the composition printed field -> results "
    "name -> constructor keyword -> stored field, followed through the parser's dispatch branch "
    "and the super().__init__ chains, must be the identity. Value identity of immediates after "
    "the round trip then rests on sext(sext(x)) = sext(x) for the widths of R01.immw."
)
ASSUMPTIONS = ["register fields hold 0..31 and immediates are Python ints (true for parser-built instructions)",
               "FENCE is excluded by the property (no operand syntax implemented)"]
TRUSTED = ["CPython ast", "sa.ppgram", "sa.align"]

EXCLUDED = {"fence"}


def hole_kind(e: ast.AST) -> str:
    t = ast.unparse(e)
    if t == "self.mnemonic":
        return "mnemonic"
    if t in ("self.rd", "self.rs1", "self.rs2"):
        return "reg"
    if t in ("self.imm", "self.uimm", "self.abs_addr", "self.csr"):
        return "int"
    if t == "hex(self.csr)":
        return "hex"
    return "unknown"


def repr_template(m, c: ClassInfo):
    f = None
    for k in m.mro(c):
        if "__repr__" in k.methods:
            f = k.methods["__repr__"]
            break
    if f is None:
        return None, None
    rets = [n for n in walk_no_nested(f.node) if isinstance(n, ast.Return)]
    if len(rets) != 1 or rets[0].value is None:
        return f, None
    v = rets[0].value
    if isinstance(v, ast.JoinedStr):
        return f, template_of(v, hole_kind)
    if ast.unparse(v) == "self.mnemonic":
        return f, [Hole("self.mnemonic", "mnemonic")]
    return f, None


def field_of_param(m, c: ClassInfo, param: str, depth: int = 0) -> Optional[str]:
    """The self.<field> that finally stores constructor parameter `param` of class c."""
    if depth > 5:
        return None
    init = None
    owner = None
    for k in m.mro(c):
        if "__init__" in k.methods:
            init, owner = k.methods["__init__"], k
            break
    if init is None or param not in init.params:
        return None
    s0 = init.params[0]
    for n in walk_no_nested(init.node):
        if isinstance(n, ast.Assign) and isinstance(n.targets[0], ast.Attribute) and isinstance(n.targets[0].value, ast.Name) \
                and n.targets[0].value.id == s0:
            names = {x.id for x in ast.walk(n.value) if isinstance(x, ast.Name)}
            if param in names:
                return n.targets[0].attr
    for call in calls_in(init.node):
        fn = call.func
        if isinstance(fn, ast.Attribute) and fn.attr == "__init__" and isinstance(fn.value, ast.Call) \
                and isinstance(fn.value.func, ast.Name) and fn.value.func.id == "super":
            nxt = None
            mro = m.mro(owner)
            for k in mro[1:]:
                if "__init__" in k.methods:
                    nxt = k
                    break
            if nxt is None:
                return None
            p2 = None
            for i, a in enumerate(call.args):
                if isinstance(a, ast.Name) and a.id == param:
                    ps = nxt.methods["__init__"].params[1:]
                    p2 = ps[i] if i < len(ps) else None
            for kw in call.keywords:
                if isinstance(kw.value, ast.Name) and kw.value.id == param and kw.arg:
                    p2 = kw.arg
            if p2 is None:
                return None
            return field_of_param(m, nxt, p2, depth + 1)
    return None


def dispatch_branches(m, f: FuncInfo):
    """[(tested class, call node)] of the issubclass chain in _write_instructions."""
    out = []
    for n in ast.walk(f.node):
        if isinstance(n, ast.If) and isinstance(n.test, ast.Call) and ast.unparse(n.test.func) == "issubclass" \
                and ast.unparse(n.test.args[0]) == "instruction_class":
            c = m.resolve_class(f.module, n.test.args[1])
            calls = [x for st in n.body for x in calls_in(st) if ast.unparse(x.func) in ("instruction_class", "FENCE")]
            out.append((c, calls[0] if calls else None, n))
    # keep source order
    out.sort(key=lambda t: t[2].lineno)
    return out


def as_keywords(m, call: ast.Call, cls) -> list:
    """The arguments of a constructor call as keywords: positional arguments are named after `cls.__init__`'s parameters
    (the call's callee is a variable holding a subclass of the tested format; each concrete class is asked separately)."""
    init = m.lookup(cls, "__init__") if cls is not None else None
    names = init.params[1:] if init is not None else []
    out = []
    for i, a in enumerate(call.args):
        if isinstance(a, ast.Starred) or i >= len(names):
            continue
        out.append(ast.keyword(arg=names[i], value=a))
    return out + [k for k in call.keywords if k.arg]


def kw_sources(call: ast.Call, m=None, cls=None) -> dict[str, str]:
    """constructor keyword -> results name it is fed from."""
    out = {}
    for kw in (as_keywords(m, call, cls) if m is not None else call.keywords):
        names = [x.attr for x in ast.walk(kw.value) if isinstance(x, ast.Attribute) and ast.unparse(x.value) == "line_parsed"]
        if names:
            out[kw.arg] = names[0]
        elif isinstance(kw.value, ast.Name) and kw.value.id == "imm_val":
            out[kw.arg] = "imm"
        elif isinstance(kw.value, ast.BinOp) and "imm_val" in ast.unparse(kw.value):
            out[kw.arg] = "imm+address"
    return out


def run(ctx: Ctx) -> None:
    m = ctx.model
    imap = map_rule(ctx, "R14.map")
    pc = m.cls("RiscvParser")
    ge = GrammarEval(m, pc)
    inst = ge.get("_pattern_instruction")
    alts = [x for x in inst.items if x.kind == "alt" and x.longest][0]
    shapes = [(a.src or f"alt{i}", flatten(a)) for i, a in enumerate(alts.items)]
    wi = m.method(pc, "_write_instructions", own=True)
    branches = dispatch_branches(m, wi)
    if len(branches) < 5:
        raise AnalysisError(f"R14.align: only {len(branches)} issubclass branches found in _write_instructions")
    reg_item = ge.get("_pattern_register")
    imm_g = ge.get("_pattern_imm")
    dec, hx, acc0 = lang_decimal_int(), lang_hex_int(), int_accept(0)
    L = Langs([imm_g, dec, hx, acc0])

    r = ctx.rule("R14.align", "printer / grammar / constructor agreement per mnemonic")
    # hole languages (once)
    r.check(L.witness_not_in(L.dfa(dec), L.dfa(imm_g)) is None and L.witness_not_in(L.dfa(dec), L.dfa(acc0)) is None, "hole|decimal-int",
            pc.loc(), f"a decimal rendering of an int ({L.witness_not_in(L.dfa(dec), L.dfa(imm_g))!r}) is not an immediate token / not accepted by int(.,0)")
    r.check(L.witness_not_in(L.dfa(hx), L.dfa(imm_g)) is None and L.witness_not_in(L.dfa(hx), L.dfa(acc0)) is None, "hole|hex-int",
            pc.loc(), f"hex(int) ({L.witness_not_in(L.dfa(hx), L.dfa(imm_g))!r}) is not an immediate token / not accepted by int(.,0)")
    from ..align import _is_register
    if not _is_register(reg_item):
        raise AnalysisError("R14.align: _pattern_register shape not recognised")
    r.check(set(register_numbers(reg_item)) == {str(i) for i in range(32)}, "hole|register", pc.loc(),
            "x<n> for n in 0..31 is not exactly what the register pattern accepts")
    cr = m.method(pc, "_convert_register_name", own=True)
    from ..flowspec import merged_result as _mr
    from ..parsershape import normal_flow as _nf
    _cfl = _nf(m, cr)
    r.check(any("int(P1[0][1])" in _cfl.canon(x) for x in _mr(_cfl)), "convert|xN", cr.loc(),
            "x<n> is no longer converted to n")

    for k in sorted(imap):
        if k in EXCLUDED:
            continue
        c = imap[k]
        f, tpl = repr_template(m, c)
        key = f"{k}|{c.name}"
        if tpl is None:
            r.check(False, key, (f.loc() if f else c.loc()), f"{k}: __repr__ is not a recognisable template")
            continue
        if any(isinstance(h, Hole) and h.kind == "unknown" for h in tpl):
            bad = [h.expr for h in tpl if isinstance(h, Hole) and h.kind == "unknown"]
            r.check(False, key, f.loc(), f"{k}: __repr__ interpolates {bad}, which has no known text language")
            continue
        hits = []
        for name, shape in shapes:
            b = match(tpl, shape, {k})
            if b is not None:
                hits.append((name, b))
        if len(hits) != 1:
            r.check(False, key, f.loc(), f"{k}: printed form `{_show(tpl)}` parses as {len(hits)} grammar alternative(s) "
                    f"{[h[0] for h in hits]} (exactly one is required)")
            continue
        altname, binding = hits[0]
        # parser branch for this class
        br = next(((t, call) for t, call, _ in branches if t is not None and t in m.mro(c)), None)
        if isinstance(tpl, list) and len(tpl) == 1:  # ecall / ebreak: string token, handled before the chain
            r.inst(key, {"alternative": altname})
            continue
        if br is None or br[1] is None:
            r.check(False, key, wi.loc(), f"{k}: no constructor dispatch branch for {c.name}")
            continue
        src = kw_sources(br[1], m, c)  # kw -> results name
        inv = {v: kk for kk, v in src.items()}
        problems = []
        for h in tpl:
            if not isinstance(h, Hole) or h.kind == "mnemonic":
                continue
            fld = h.expr.split("(")[-1].rstrip(")").split(".")[-1]  # self.rd / hex(self.csr) -> rd / csr
            rn = binding.get(h.expr)
            if fld == "abs_addr":
                # printed absolute address lands on the imm token; handled by R14.jal
                if rn != "imm":
                    problems.append(f"absolute address lands on `{rn}`")
                continue
            kw = inv.get(rn)
            if kw is None:
                problems.append(f"printed {fld} lands on results name `{rn}` which the {br[0].name} branch does not use")
                continue
            stored = field_of_param(m, c, kw)
            if stored != fld:
                problems.append(f"printed {fld} -> token `{rn}` -> keyword {kw}= -> stored in self.{stored}")
        r.check(not problems, key, f.loc(), f"{k}: round trip is not the identity: " + "; ".join(problems),
                {"alternative": altname, "binding": {kk: v for kk, v in binding.items()}})
    r.floor(50)

    r = ctx.rule("R14.jal", "J-type branch inverts printing the absolute address")
    jb = next(((t, call, n) for t, call, n in branches if t is not None and t.name == "JTypeInstruction"), None)
    if jb is None:
        raise AnalysisError("anchor vanished: JTypeInstruction branch")
    t, call, node = jb
    # On every path of the emission pass that builds a J-type instruction, with R = the converted operand and A = the address
    # of the instruction:  numeric operand (printed absolute address):  imm = R - A, abs_addr = R;   label:  imm = R, abs_addr = R + A.
    # Locals are substituted per path and sums simplified, so temporaries, `imm_val -= A` vs a conditional expression, or
    # computing abs_addr first do not matter.
    from ..pathsym import iteration, sym_events
    from ..symflow import Printer
    from .c04 import emit_counter, _entry_alias
    wi_j, cnt_j, loop_j = emit_counter(ctx)
    al = _entry_alias(loop_j)
    prj = Printer(m, wi_j.params, al, canonical=True)
    seen_j: set = set()
    n_num = n_lab = 0
    for p_ in function_paths(wi_j.node):
        it = iteration(p_, loop_j)
        if it is None:
            continue
        sig = tuple((id(e.node), e.pol, e.kind) for e in p_.events[it[0] + 1:it[1]])
        if sig in seen_j:
            continue
        seen_j.add(sig)
        evs = [se for se in sym_events(p_, keep={cnt_j}) if it[0] < se.index < it[1]]
        if not any(se.event.kind == "test" and se.event.pol and "JTypeInstruction" in ast.unparse(se.node) and "issubclass" in ast.unparse(se.node) for se in evs):
            continue
        def numeric_test(e: ast.AST):
            """polarity with which `e` says "the operand is a number" (None: e is not that test)"""
            pol = True
            while isinstance(e, ast.UnaryOp) and isinstance(e.op, ast.Not):
                e, pol = e.operand, not pol
            t = " ".join(ast.unparse(e).split())
            if t in ("line_parsed.get('imm')", "line_parsed.imm", "line_parsed.get('imm') is not None", "line_parsed.get('imm') != None",
                     "bool(line_parsed.get('imm'))", "'imm' in line_parsed"):
                return pol
            if t in ("line_parsed.get('imm') is None", "line_parsed.get('imm') == None", "'imm' not in line_parsed"):
                return not pol
            return None

        def assume(e: ast.AST, flag: bool) -> ast.AST:
            class T(ast.NodeTransformer):
                def visit_IfExp(self, n):
                    self.generic_visit(n)
                    pol = numeric_test(n.test)
                    if pol is None:
                        return n
                    return n.body if pol == flag else n.orelse
            import copy as _copy
            return T().visit(_copy.deepcopy(e))

        numeric = None
        for se in evs:
            if se.event.kind == "test":
                pol = numeric_test(se.event.node)
                if pol is not None:
                    numeric = (bool(se.event.pol) == pol)
        ctor = None
        for se in evs:
            if se.event.kind != "stmt":
                continue
            for c_ in calls_in(se.node):
                if isinstance(c_.func, ast.Attribute) and c_.func.attr == "append" and c_.args and isinstance(c_.args[0], ast.Call):
                    ctor = c_.args[0]
        if ctor is None:
            continue
        kwj = {k.arg: k.value for k in as_keywords(m, ctor, m.cls("JAL"))}
        convs = [x for v in kwj.values() for x in ast.walk(v) if isinstance(x, ast.Call) and isinstance(x.func, ast.Attribute) and x.func.attr == "_convert_label_or_imm"]
        if not convs or "imm" not in kwj or "abs_addr" not in kwj:
            r.check(False, "J|abs_addr", wi_j.loc(ctor), "the J-type constructor is not given imm / abs_addr derived from the converted operand")
            continue
        R, A = prj.show(convs[0]), cnt_j
        for flag in (True, False):
            if numeric is not None and numeric != flag:
                continue
            got = (prj.show(assume(kwj["imm"], flag)), prj.show(assume(kwj["abs_addr"], flag)))
            if flag:
                n_num += 1
                want_j = (f"Sub({R}, {A})", R)
                r.check(got == want_j, "J|numeric-operand-is-absolute", wi_j.loc(ctor),
                        f"a numeric jal operand is the absolute target: imm must be operand - address and abs_addr the operand; found imm=`{got[0]}`, abs_addr=`{got[1]}`")
            else:
                n_lab += 1
                want_j = (R, prj.show(ast.BinOp(left=ast.Name(id=A, ctx=ast.Load()), op=ast.Add(), right=convs[0])))
                r.check(got == want_j, "J|abs_addr", wi_j.loc(ctor),
                        f"for a label operand imm is the converted offset and abs_addr = imm + address of the instruction; found imm=`{got[0]}`, abs_addr=`{got[1]}`")
    if n_num == 0 or n_lab == 0:
        raise AnalysisError(f"R14.jal: J-type emission paths not recognised (numeric {n_num}, label {n_lab})")
    jt = m.cls("JTypeInstruction")
    jf, jtpl = repr_template(m, jt)
    jh = [h.expr for h in (jtpl or []) if isinstance(h, Hole) and h.kind == "int"]
    r.check(jh == ["self.abs_addr"], "J|prints-absolute", jf.loc() if jf else jt.loc(),
            f"J-type prints {jh}; the assembler reads a numeric jal operand as an absolute address, so the absolute address must be printed")
    ji = m.method(jt, "__init__", own=True)
    from ..parsershape import normal_flow
    jfl = normal_flow(m, ji)
    jst = {jfl.canon(e.expr) for e in jfl.effects if e.kind == "store" and jfl.canon_cond(e.cond) == "TRUE"}
    r.check(f"P0.abs_addr := P{ji.params.index('abs_addr')}" in jst if "abs_addr" in ji.params else False, "J|stored", ji.loc(), "abs_addr is not stored as given")
    # address_count advances by the length of every emitted instruction (so 'same address' is well defined)
    from .c04 import advances_of, emit_counter, emit_pass_checks
    wi2, c2, l2 = emit_counter(ctx)
    emit_pass_checks(ctx, r, lambda f, c_, l_: advances_of(ctx, f, c_, l_), wi2, c2, l2)

    r = ctx.rule("R14.list", "listing = str() of each stored instruction, by address")
    gr = m.method("InstructionMemory", "get_representation", own=True)
    from ..imemspec import listing_rule
    listing_rule(ctx, r)
    # str() falls back to __repr__: no class may define a diverging __str__
    for c in m.subclasses(m.cls("RiscvInstruction")):
        r.check("__str__" not in c.methods, f"{c.name}.__str__", c.loc(), f"{c.name} defines __str__: the listing would differ from repr()")
    from ..operandspec import convert_rule
    convert_rule(ctx, r)
    # B-type operands printed numerically are taken as pc-relative immediates unchanged
    # (that a numeric branch operand is used unchanged as the even immediate is part of the reference comparison of
    #  _convert_label_or_imm in convert_rule above)
    r.floor(40)

    idem_rule(ctx)
    # error messages print the failing instruction: its own text with its own address (both from the same latch)
    from ..pipelinerules import fault_rule
    fault_rule(ctx, "R14.err")


def idem_rule(ctx: Ctx) -> None:
    """The constructor's reduction of the immediate is a projection (k-bit sign or zero extension for
    *some* k), so printing the stored value and re-assembling it stores the same value again."""
    from ..bitslice import Evaluator, Form, Inconclusive
    from ..consteval import Folder
    from .c01 import IMM_FORMATS
    m = ctx.model
    r = ctx.rule("R14.sext", "immediate reduction is idempotent (a k-bit sign/zero extension)")
    for cn, (attr, param, width, signed) in IMM_FORMATS.items():
        c = m.cls(cn)
        from ..immform import stored_imm
        init, got, val = stored_imm(m, c, attr, param, "R14.sext")
        ok = any(got == Form.field(param, 0, k, signed=s) for k in range(1, 33) for s in (True, False)) or got == Form.var(param)
        r.check(ok, f"{cn}.{attr}", init.loc(val), f"{cn} stores {attr} = {got.describe()}, which is not a k-bit sign/zero extension: "
                "re-assembling the printed value would store a different immediate")
    r.floor(7)


def _show(tpl) -> str:
    return "".join(x if isinstance(x, str) else "{" + x.expr + "}" for x in tpl)
