"""C15 -- errors are well-typed.

R15.int    every text->int conversion in the two parsers accepts every token the grammar
           can bind to it: language inclusion L(token) in L(int(., base)) over DFAs built
           from the pyparsing grammar (evaluated from the AST) and CPython's literal
           syntax, and no unbounded decimal run reaches a base-0/10 conversion (CPython
           refuses > 4300 digits) -- unless the call sits in a try that converts
           ValueError into a parser error.
R15.raise  every raise reachable from RiscvParser.parse / ToyParser.parse (call-graph
           closure with the preload flag specialised) constructs a ParserException
           subclass, MemorySizeException or MemoryAddressError; tabled exemptions carry
           their reason and the preconditions are checked.
R15.line   every parser exception is constructed with the line number of the entry being
           processed, and entries are numbered from 1 over program.splitlines().
R15.tok    _tokenize converts pyparsing failures into ParserSyntaxException(line).
R15.key    dynamic lookups on user-controlled keys are guarded or closed over the grammar.
R15.rt     run-time errors are wrapped broadly with the failing instruction's address.
R15.gui    the front end classifies by isinstance on exactly these two roots.
"""
from __future__ import annotations

import ast
from typing import Optional

from ..common import effects, seg, short
from ..consteval import Unknown, fold_in
from ..model import AnalysisError, ClassInfo, FuncInfo, walk_no_nested
from ..paths import calls_in
from ..pipelinerules import fault_rule
from ..ppgram import (G, GrammarEval, Langs, NUMS, alt, find_named, int_accept, lit, oneof_strings, seq)
from ..report import Ctx

GET_LAST_ERROR_REF = '''
def get_last_error():
    error = sys.last_value
    if isinstance(error, ParserException):
        return ("ParserException", error.__repr__(), error.line_number)
    if isinstance(error, InstructionExecutionException):
        return ("InstructionExecutionException", error.__repr__(), error.address)
    return ("Unknown", error.__repr__())
'''

EXPLANATION = (
    "Decides the universal negative 'no other exception for any text' as far as it is visible in "
    "the code: (1) for every int() conversion of a token, inclusion of the token's regular "
    "language (computed from the pyparsing grammar, which is evaluated from the AST) in the "
    "language CPython's int() accepts for that base, including the 4300-digit limit -- this "
    "covers every literal spelling at once and yields a shortest failing literal when it fails; "
    "(2) every raise statement in the call-graph closure of the two parse() methods constructs a "
    "sanctioned exception type, with line numbers that derive from enumerate(splitlines())+1; "
    "(3) dictionary lookups on user-controlled keys are guarded; (4) the run-time wrapper "
    "catches Exception (not a narrower class) around every stage dispatch and reports the input "
    "latch of the failing stage. IndexError/TypeError/AttributeError sites of ordinary "
    "subscripts and attribute accesses are not enumerated, and termination is argued only "
    "through the expansion templates (R04.gen)."
)
ASSUMPTIONS = [
    "CPython int() literal syntax as modelled in sa.ppgram.int_accept (no '_' or whitespace in tokens)",
    "sys.int_max_str_digits is the default 4300",
    "union over grammar alternatives over-approximates what a successful parse can bind (sound for inclusion)",
]
TRUSTED = ["CPython ast", "sa.ppgram grammar evaluator and DFA algebra", "sa.effects call-graph closure"]

SANCTIONED = ("ParserException", "MemorySizeException", "MemoryAddressError")


def _is_parser_exc(m, c: Optional[ClassInfo]) -> bool:
    return c is not None and any(k.name == "ParserException" for k in m.mro(c))


def _guarded(f: FuncInfo, call: ast.Call, m) -> bool:
    """call is inside a try whose ValueError/Exception handler raises a parser exception."""
    for t in walk_no_nested(f.node):
        if isinstance(t, ast.Try) and any(call is x for st in t.body for x in ast.walk(st)):
            for h in t.handlers:
                names = []
                if h.type is None:
                    names = ["BaseException"]
                elif isinstance(h.type, ast.Tuple):
                    names = [ast.unparse(x) for x in h.type.elts]
                else:
                    names = [ast.unparse(h.type)]
                if any(n in ("ValueError", "Exception", "BaseException") for n in names):
                    for rz in ast.walk(h):
                        if isinstance(rz, ast.Raise) and isinstance(rz.exc, ast.Call):
                            c = m.resolve_class(f.module, rz.exc.func)
                            if _is_parser_exc(m, c):
                                return True
    return False


def _base_of(call: ast.Call) -> Optional[int]:
    b: Optional[ast.AST] = None
    for k in call.keywords:
        if k.arg == "base":
            b = k.value
    if len(call.args) >= 2:
        b = call.args[1]
    if b is None:
        return 10
    if isinstance(b, ast.Constant) and isinstance(b.value, int):
        return b.value
    return None


def _enclosing_for_iter(f: FuncInfo, node: ast.AST, var: str) -> Optional[ast.AST]:
    for n in walk_no_nested(f.node):
        if isinstance(n, ast.For) and isinstance(n.target, ast.Name) and n.target.id == var and any(node is x for x in ast.walk(n)):
            return n.iter
    return None


def _union(gs: list[G]) -> Optional[G]:
    if not gs:
        return None
    return gs[0] if len(gs) == 1 else alt(gs, False)


def token_source(ge: GrammarEval, f: FuncInfo, call: ast.Call) -> tuple[Optional[G], str]:
    """Grammar element(s) whose matched text reaches this int() call, with a description."""
    a = call.args[0]
    # a local bound once to (a part of) a token stands for it: `t = parsed_register[0]; int(t[1])`
    from ..pathsym import subst
    counts: dict = {}
    for n in ast.walk(f.node):
        if isinstance(n, ast.Name) and isinstance(n.ctx, ast.Store):
            counts[n.id] = counts.get(n.id, 0) + 1
    single = {n.targets[0].id: n.value for n in ast.walk(f.node) if isinstance(n, ast.Assign) and len(n.targets) == 1
              and isinstance(n.targets[0], ast.Name) and counts.get(n.targets[0].id) == 1
              and isinstance(n.value, (ast.Name, ast.Attribute, ast.Subscript)) and not any(isinstance(x, ast.Call) for x in ast.walk(n.value))}
    for _ in range(3):
        a = subst(a, single)
    line = ge.get("_pattern_line")
    txt = ast.unparse(a)
    if isinstance(a, ast.Name):
        it = _enclosing_for_iter(f, call, a.id)
        if it is not None and ("values" in ast.unparse(it)):
            el = find_named(line, "values")
            items = [x.items[0] for x in el if x.kind == "dlist"]
            return _union(items), "element of the `values` list"
    if isinstance(a, ast.Attribute) and a.attr in ("imm", "csr", "uimm", "offset", "address"):
        return _union(find_named(line, a.attr)), f"token named `{a.attr}`"
    if isinstance(a, ast.Call) and isinstance(a.func, ast.Attribute) and a.func.attr == "get" and a.args and isinstance(a.args[0], ast.Constant):
        nm = a.args[0].value
        return _union(find_named(line, nm)), f"token named `{nm}`"
    if isinstance(a, ast.Attribute) and a.attr == "index":
        el = find_named(line, "index")
        inner = []
        for x in el:
            inner.append(x.items[0] if x.kind == "opt" else x)
        return _union(inner), "array index token (non-empty by the enclosing truth test)"
    if txt == "parsed_register[0][1]":
        reg = ge.get("_pattern_register")
        nums = [x for x in ast_walk_g(reg) if x.kind == "oneof" and all(s.isdigit() for s in oneof_strings(x))]
        return _union(nums), "register number token"
    return None, txt


def ast_walk_g(g: G):
    yield g
    for it in g.items:
        if isinstance(it, G):
            yield from ast_walk_g(it)


def _object_valued(f, e: ast.AST, depth: int = 0) -> bool:
    """Is `e` an element of a local list that is only ever filled with freshly constructed objects (`L.append(cls(..))`), reached
    through aliases, `L[i]`, `for x in L` / `for i, x in enumerate(L)`?  Such a value is an instruction object, not token text."""
    if depth > 6:
        return False
    fn = f.node

    def binds(name: str):
        out = []
        for n in ast.walk(fn):
            if isinstance(n, ast.Assign) and len(n.targets) == 1 and isinstance(n.targets[0], ast.Name) and n.targets[0].id == name:
                out.append(("assign", n.value))
            elif isinstance(n, (ast.For, ast.comprehension)):
                t, it = n.target, n.iter
                if isinstance(t, ast.Name) and t.id == name:
                    out.append(("iter", it))
                elif isinstance(t, ast.Tuple) and len(t.elts) == 2 and isinstance(t.elts[1], ast.Name) and t.elts[1].id == name \
                        and isinstance(it, ast.Call) and isinstance(it.func, ast.Name) and it.func.id == "enumerate" and it.args:
                    out.append(("iter", it.args[0]))
                elif any(isinstance(x, ast.Name) and x.id == name for x in ast.walk(t)):
                    out.append(("other", None))
            elif isinstance(n, (ast.AugAssign, ast.AnnAssign, ast.NamedExpr)) and isinstance(getattr(n, "target", None), ast.Name) and n.target.id == name:
                out.append(("other", None))
        return out

    def object_list(x: ast.AST, d: int) -> bool:
        if d > 6 or not isinstance(x, ast.Name):
            return False
        bs = binds(x.id)
        if not bs or any(k != "assign" for k, _ in bs):
            return False
        if all(isinstance(v, ast.Name) for _k, v in bs):
            return all(object_list(v, d + 1) for _k, v in bs)
        if not all(isinstance(v, ast.List) and not v.elts for _k, v in bs):
            return False
        adds = [c for c in ast.walk(fn) if isinstance(c, ast.Call) and isinstance(c.func, ast.Attribute) and isinstance(c.func.value, ast.Name)
                and c.func.value.id == x.id and c.func.attr in ("append", "extend", "insert", "__setitem__")]
        others = [n for n in ast.walk(fn) if isinstance(n, ast.Subscript) and isinstance(n.ctx, ast.Store) and isinstance(n.value, ast.Name) and n.value.id == x.id]
        return bool(adds) and not others and all(c.func.attr == "append" and len(c.args) == 1 and isinstance(c.args[0], ast.Call)
                                                  and isinstance(c.args[0].func, (ast.Name, ast.Subscript))
                                                  and not (isinstance(c.args[0].func, ast.Name) and c.args[0].func.id in ("str", "repr", "input", "format"))
                                                  for c in adds)

    if isinstance(e, ast.Subscript) and not isinstance(e.slice, ast.Slice):
        return object_list(e.value, depth)
    if isinstance(e, ast.Name):
        bs = binds(e.id)
        if not bs:
            return False
        return all((k == "iter" and object_list(v, depth)) or (k == "assign" and _object_valued(f, v, depth + 1)) for k, v in bs)
    return False


def int_rule(ctx: Ctx) -> None:
    m = ctx.model
    r = ctx.rule("R15.int", "L(token) subset of L(int(., base)), incl. the 4300-digit limit, at every unguarded conversion")
    n_sites = 0
    for cn in ("Parser", "RiscvParser", "ToyParser"):
        pc = m.cls(cn)
        ge = GrammarEval(m, pc if cn != "Parser" else m.cls("RiscvParser"))
        for name, f in sorted(pc.methods.items()):
            # conversions routed through a guarded helper are counted at the call site
            for call in calls_in(f.node):
                if isinstance(call.func, ast.Attribute) and call.func.attr == "_literal_to_int":
                    helper = m.lookup(m.cls("Parser"), "_literal_to_int")
                    inner = [c for c in calls_in(helper.node) if isinstance(c.func, ast.Name) and c.func.id == "int"] if helper else []
                    ok = helper is not None and bool(inner) and all(_guarded(helper, c, m) for c in inner)
                    n_sites += 1
                    r.check(ok, f"{cn}.{name}|_literal_to_int({ast.unparse(call.args[0]) if call.args else '?'})", f.loc(call),
                            "Parser._literal_to_int no longer converts ValueError into a parser exception", "guarded helper")
            for call in calls_in(f.node):
                if not (isinstance(call.func, ast.Name) and call.func.id == "int" and call.args):
                    continue
                a0 = call.args[0]
                if isinstance(a0, ast.Constant):
                    continue
                # conversions of non-token values (fixedint objects, ToyInstruction) are not text conversions
                t0 = ast.unparse(a0)
                if t0.startswith("fixedint.") or t0.startswith("UInt") or "UInt32(" in t0 or _object_valued(f, a0):
                    continue
                n_sites += 1
                key = f"{cn}.{name}|int({t0}" + (f", base={_base_of(call)})" if _base_of(call) != 10 else ")")
                if _guarded(f, call, m):
                    r.inst(key, "guarded: ValueError -> parser exception")
                    continue
                base = _base_of(call)
                if base is None:
                    r.check(False, key, f.loc(call), f"{cn}.{name}: `{seg(f, call)}` converts with a non-constant base")
                    continue
                # TOY helper: the parameter is refined by the startswith("0x") split
                prefix_keep = None
                strip = 0
                if cn == "ToyParser" and name == "_value_to_int":
                    src = _union(find_named(ge.get("_pattern_line"), "address") +
                                 [x.items[0] for x in find_named(ge.get("_pattern_line"), "values") if x.kind == "dlist"])
                    desc = "TOY address / data value token"
                    for n in walk_no_nested(f.node):
                        if isinstance(n, ast.If) and ast.unparse(n.test) == f"{f.params[1]}.startswith('0x')":
                            in_body = any(call is x for st in n.body for x in ast.walk(st))
                            in_else = any(call is x for st in n.orelse for x in ast.walk(st))
                            if in_body:
                                prefix_keep = True
                            elif in_else:
                                prefix_keep = False
                    if isinstance(a0, ast.Subscript) and isinstance(a0.slice, ast.Slice) and a0.slice.lower is not None:
                        strip = a0.slice.lower.value if isinstance(a0.slice.lower, ast.Constant) else 0
                else:
                    src, desc = token_source(ge, f, call)
                if src is None:
                    r.check(False, key, f.loc(call), f"{cn}.{name}: `{seg(f, call)}` converts text whose origin in the grammar is "
                            "not recognised and is not protected by `except ValueError -> parser exception`")
                    continue
                acc = int_accept(base)
                pure_dec = seq([G("opt", (alt([lit("-"), lit("+")], False),)), G("word", chars=NUMS, body=NUMS)])
                L = Langs([src, acc, pure_dec], extra_chars="0x")
                d = L.dfa(src)
                if prefix_keep is True:
                    d = L.quotient(L.with_prefix(d, "0x", True), "0x"[:strip]) if strip else L.with_prefix(d, "0x", True)
                elif prefix_keep is False:
                    d = L.with_prefix(d, "0x", False)
                w = L.witness_not_in(d, L.dfa(acc))
                if w is not None:
                    r.check(False, key, f.loc(call),
                            f"{cn}.{name}: the grammar can bind {desc} to {w!r}, which `{seg(f, call)}` rejects with a raw "
                            f"ValueError (shortest witness; not a parser error with a line number)", {"witness": w})
                    continue
                if base in (0, 10):
                    # decimal strings of unbounded length
                    dd = _intersect(L, d, L.dfa(pure_dec))
                    if L.unbounded_run(dd):
                        r.check(False, key, f.loc(call),
                                f"{cn}.{name}: {desc} admits decimal literals of unbounded length; `{seg(f, call)}` raises a raw "
                                "ValueError beyond 4300 digits (CPython's integer string conversion limit)", {"witness": "9" * 12 + "... (4301 digits)"})
                        continue
                r.inst(key, {"source": desc, "base": base})
    if n_sites < 10:
        raise AnalysisError(f"R15.int: only {n_sites} conversion sites found (17 confirmed by hand)")


def _intersect(L: Langs, a, b):
    from ..ppgram import Dfa
    ids = {(a.start, b.start): 0}
    work = [(a.start, b.start)]
    trans = {}
    acc = set()
    while work:
        cur = work.pop()
        x, y = cur
        if x in a.accept and y in b.accept:
            acc.add(ids[cur])
        for ai in range(len(L.atoms)):
            nx, ny = a.trans.get((x, ai)), b.trans.get((y, ai))
            if nx is None or ny is None:
                continue
            k = (nx, ny)
            if k not in ids:
                ids[k] = len(ids)
                work.append(k)
            trans[(ids[cur], ai)] = ids[k]
    return Dfa(L.atoms, trans, 0, acc, len(ids))


EXEMPT_RAISES = {
    # exception class -> (where, reason)
    "UnsupportedFunctionError": "cell width (8 for RISC-V, 16 for TOY: R18.cfg) never exceeds the widths the parsers write "
                                "(RISC-V: byte/half/word; TOY: half-word only -- checked below)",
    "CSRError": "type-directed: state.memory is built from Memory / write-through / write-back only; the CSR file is a separate attribute",
    "NotImplementedError": "abstract method bodies of MemorySystem (never instantiated)",
}


def raise_rule(ctx: Ctx) -> None:
    m = ctx.model
    eff = effects(ctx)
    r = ctx.rule("R15.raise", "only sanctioned exception types are raised on the load path")
    total = 0
    for cn in ("RiscvParser", "ToyParser"):
        f = m.method(cn, "parse", own=True)
        s = eff.solved(f)
        if s.unresolved:
            # a call into a library module the external-callee table does not know (ast.literal_eval, json.loads, re.compile ..) can raise
            # whatever that library raises: on the load path that is a decided violation unless it is tabled; anything else that cannot
            # be resolved stays an analysis error
            import re as _re
            rest = []
            for (o, t), ch in sorted(s.unresolved.items()):
                mm = _re.match(r"^([A-Za-z_][A-Za-z_0-9]*)\.([A-Za-z_][A-Za-z_0-9.]*)\(", t)
                lib = None
                if mm:
                    for mod_ in m.modules.values():
                        tgt = mod_.imports.get(mm.group(1))
                        if tgt is not None and not tgt.startswith("architecture_simulator") and mod_.relpath.split(":")[0] in o:
                            lib = tgt
                if lib is not None and lib.split(".")[0] not in ("fixedint", "pyparsing", "math", "typing", "dataclasses", "abc", "enum"):
                    total += 1
                    r.check(False, f"{cn}|external:{mm.group(1)}.{mm.group(2)}", o, f"`{t[:80]}` on the load path of {cn} calls into `{lib}`, whose "
                            "exceptions are not parser errors (and are not known to the external-callee table): a malformed program can surface as a "
                            "raw library exception instead of a ParserException with a line number")
                else:
                    rest.append((o, t))
            if rest:
                o, t = rest[0]
                raise AnalysisError(f"R15.raise: unresolved call `{t}` at {o} on the load path of {cn}")
        clo = eff.closure(f)
        for (g, spec) in sorted(clo, key=lambda k: k[0].qname):
            for st in eff.live_stmts(g.node.body, spec):
                if isinstance(st, ast.Assert):
                    total += 1
                    key = f"{cn}|{short(g.qname)}|assert"
                    ok = short(g.qname) == "RiscvParser._list_access_at_zero_and_remove_inline_labels"
                    if not ok:
                        from ..assertproof import discharged
                        if discharged(m, g, st):
                            # the statements in front of it establish the asserted fact for every value (abstract interpretation of
                            # the backward slice, residues split where the test speaks of `% 2**k`): it cannot fail
                            r.inst(key + "|proved", "discharged by abstract interpretation of its backward slice")
                            continue
                    r.check(ok, key, g.loc(st), f"`{seg(g, st)}` on the load path can raise AssertionError"
                            if not ok else "", "tabled: a two-token line always starts with its label string")
                    continue
                if not isinstance(st, ast.Raise):
                    continue
                total += 1
                exc = st.exc
                if exc is None:
                    r.check(False, f"{cn}|{short(g.qname)}|re-raise", g.loc(st), "bare re-raise on the load path")
                    continue
                cnode = exc.func if isinstance(exc, ast.Call) else exc
                c = m.resolve_class(g.module, cnode)
                cname = c.name if c else ast.unparse(cnode)
                key = f"{cn}|{short(g.qname)}|{cname}"
                ok = c is not None and (_is_parser_exc(m, c) or c.name in ("MemorySizeException", "MemoryAddressError"))
                if ok:
                    r.inst(key, None)
                elif cname in EXEMPT_RAISES and (g.cls is not None and g.cls.name in ("Memory", "MemorySystem", "CsrRegisterFile")):
                    r.inst(key, "exempt: " + EXEMPT_RAISES[cname])
                else:
                    r.check(False, key, g.loc(st), f"`{seg(g, st)}` in {short(g.qname)} is reachable from {cn}.parse and is neither a "
                            "ParserException nor the memory-size/address error")
        # precondition of the UnsupportedFunctionError exemption
        calls = set()
        for meth in m.cls(cn).methods.values():
            for c in calls_in(meth.node):
                if isinstance(c.func, ast.Attribute) and c.func.attr.startswith(("write_", "read_")) and ".memory." in ast.unparse(c.func):
                    calls.add(c.func.attr)
        if cn == "ToyParser":
            r.check(calls <= {"write_halfword"}, "ToyParser|memory-widths", m.cls(cn).loc(),
                    f"the TOY parser uses memory accessors {sorted(calls)}; with 16-bit cells only write_halfword cannot raise UnsupportedFunctionError")
        else:
            r.check(calls <= {"write_byte", "write_halfword", "write_word"}, "RiscvParser|memory-widths", m.cls(cn).loc(),
                    f"the RISC-V parser uses memory accessors {sorted(calls)}")
    if total < 30:
        raise AnalysisError(f"R15.raise: only {total} raise/assert statements found on the load paths (41 confirmed by hand)")
    # the sanctioned classes carry what the front end needs
    pe = m.cls("ParserException")
    r.check({"line_number", "line"} <= set(pe.anns) and pe.is_dataclass, "ParserException|fields", pe.loc(), "ParserException lost line_number / line")
    for c in m.subclasses(pe, strict=True):
        r.check("line_number" not in c.anns, f"{c.name}|line_number", c.loc(), f"{c.name} redefines line_number")


def line_rule(ctx: Ctx) -> None:
    m = ctx.model
    r = ctx.rule("R15.line", "parser exceptions carry the 1-based number of the entry being processed")
    pe = m.cls("ParserException")
    lists = ("self.data", "self.text", "self.token_list", "self.sanitized_program", "self.token_list[1:]")
    n = 0
    for cn in ("Parser", "RiscvParser", "ToyParser"):
        for name, f in sorted(m.cls(cn).methods.items()):
            for call in calls_in(f.node):
                c = m.resolve_class(f.module, call.func)
                if not _is_parser_exc(m, c) or c is pe:
                    continue
                n += 1
                fields_order = []
                for k_ in reversed(m.mro(c)):
                    for a_ in k_.anns:
                        if a_ not in fields_order:
                            fields_order.append(a_)
                pos = fields_order.index("line_number") if "line_number" in fields_order else 0
                arg = next((k.value for k in call.keywords if k.arg == "line_number"), call.args[pos] if len(call.args) > pos else None)
                key = f"{cn}.{name}|{c.name}"
                ok = False
                why = "no line_number argument"
                if isinstance(arg, ast.Subscript):
                    ok = _is_loop_var(f, call, arg, lists)
                    why = f"`{ast.unparse(arg)}` is not the line number of the entry being iterated over"
                if isinstance(arg, ast.Name):
                    v = arg.id
                    if v in f.params:
                        # a helper: its callers must pass their own loop variable
                        ok = all(_caller_passes_loop_var(m, g, f, v, lists) for g in _callers(m, f)) and bool(_callers(m, f))
                        why = f"parameter `{v}` is not always fed from the caller's current entry"
                    else:
                        ok = _is_loop_var(f, call, v, lists)
                        why = f"`{v}` is not the line number of the entry being iterated over"
                r.check(ok, key, f.loc(call), f"{cn}.{name}: {c.name}(line_number={ast.unparse(arg) if arg is not None else '?'}): {why}")
    if n < 12:
        raise AnalysisError(f"R15.line: only {n} parser exception constructions found")
    from ..parsershape import sanitize_form
    f, form = sanitize_form(m)
    ok = form is not None and form["number"] == "Add(1, _c0)" and form["iter"] == "enumerate(P0.program.splitlines())"
    r.check(ok, "Parser._sanitize|numbering", f.loc(), "entries are no longer numbered index+1 over program.splitlines() "
            f"(recovered form: {form})")
    ok = form is not None and "_c1" in form["text"] and "_c0" not in form["text"]
    r.check(ok, "Parser._sanitize|carry", f.loc(), "comment stripping no longer keeps each entry's line number")
    tokenize_clause(ctx, r)


def tokenize_clause(ctx: Ctx, r) -> None:
    """Every sanitized entry is tokenised by *this parser's own* grammar, freshly: token_list gets (number, line, pattern(line))."""
    m = ctx.model
    f = m.method("Parser", "_tokenize", own=True)
    from ..parsershape import normal_flow
    tfl = normal_flow(m, f)
    E = "ELEM1.0(P0.sanitized_program)"
    apps = [tfl.canon(e.expr) for e in tfl.effects if e.kind == "call" and isinstance(e.expr, ast.Call) and isinstance(e.expr.func, ast.Attribute)
            and e.expr.func.attr == "append" and tfl.canon(e.expr.func.value).split("@")[0] == "P0.token_list"]
    import re as _re
    apps = [_re.sub(r"@\d+", "", a_) for a_ in apps]
    want_t = {f"P0.token_list.append(({E}[0], {E}[1], P0._pattern_line.{fn}({E}[1])))" for fn in ("parseString", "parse_string")}
    r.check(len(apps) == 1 and apps[0] in want_t, "Parser._tokenize|carry", f.loc(), "every entry must be tokenised by the parser's own grammar, "
            f"P0._pattern_line.parseString(line), and carried as (line_number, line, tokens) -- no remembered tokens of another text or another grammar: {apps}")


def _entry_loops(f: FuncInfo, node: ast.AST, lists):
    """For-loops over one of the entry lists that enclose `node`: yields (whole-element name or None, component names or None)."""
    for n in walk_no_nested(f.node):
        if not (isinstance(n, ast.For) and any(node is x for x in ast.walk(n))):
            continue
        tgt, it = n.target, n.iter
        # for i, <entry> in enumerate(<list>[, start])
        if isinstance(it, ast.Call) and isinstance(it.func, ast.Name) and it.func.id == "enumerate" and 1 <= len(it.args) <= 2 \
                and isinstance(tgt, ast.Tuple) and len(tgt.elts) == 2:
            tgt, it = tgt.elts[1], it.args[0]
        if " ".join(ast.unparse(it).split()).replace(f"{f.params[0]}.", "self.", 1) not in lists and " ".join(ast.unparse(it).split()) not in lists:
            continue
        if isinstance(tgt, ast.Name):
            yield tgt.id, None
        elif isinstance(tgt, ast.Tuple) and tgt.elts and all(isinstance(x, ast.Name) for x in tgt.elts):
            yield None, [x.id for x in tgt.elts]


def _is_loop_var(f: FuncInfo, node: ast.AST, var, lists, depth: int = 0) -> bool:
    """Is `var` (a name or an expression) the line number -- component 0 -- of the entry an enclosing loop over one of the entry
    lists is looking at?  Follows single-assigned aliases (`n = entry[0]`, `n, l, p = entry`)."""
    e = ast.Name(id=var, ctx=ast.Load()) if isinstance(var, str) else var
    if depth > 5:
        return False
    loops = list(_entry_loops(f, node, lists))
    if isinstance(e, ast.Subscript) and isinstance(e.slice, ast.Constant) and e.slice.value == 0 and isinstance(e.value, ast.Name):
        return any(whole == e.value.id for whole, _c in loops)
    if not isinstance(e, ast.Name):
        return False
    if any(comps is not None and comps[0] == e.id for _w, comps in loops):
        return True
    # a single-assigned alias
    stores = [x for x in ast.walk(f.node) if isinstance(x, ast.Name) and x.id == e.id and isinstance(x.ctx, ast.Store)]
    if len(stores) != 1:
        return False
    for a_ in ast.walk(f.node):
        if isinstance(a_, ast.Assign) and len(a_.targets) == 1:
            t = a_.targets[0]
            if isinstance(t, ast.Name) and t.id == e.id:
                return _is_loop_var(f, node, a_.value, lists, depth + 1)
            if isinstance(t, ast.Tuple) and t.elts and isinstance(t.elts[0], ast.Name) and t.elts[0].id == e.id and isinstance(a_.value, ast.Name):
                return any(whole == a_.value.id for whole, _c in loops)
    return False


def _callers(m, f: FuncInfo):
    out = []
    for cn in ("Parser", "RiscvParser", "ToyParser"):
        for g in m.cls(cn).methods.values():
            if any(isinstance(c.func, ast.Attribute) and c.func.attr == f.name for c in calls_in(g.node)):
                out.append(g)
    return out


def _caller_passes_loop_var(m, g: FuncInfo, f: FuncInfo, param: str, lists) -> bool:
    ok = True
    for c in calls_in(g.node):
        if isinstance(c.func, ast.Attribute) and c.func.attr == f.name:
            arg = next((k.value for k in c.keywords if k.arg == param), None)
            if arg is None:
                idx = f.params.index(param) - (0 if f.is_staticmethod or f.cls is None else 1)
                arg = c.args[idx] if idx < len(c.args) else None
            ok = ok and isinstance(arg, ast.Name) and (_is_loop_var(g, c, arg.id, lists) or (arg.id in g.params and arg.id in ("line_number",)
                                                      and all(_caller_passes_loop_var(m, h, g, arg.id, lists) for h in _callers(m, g))))
    return ok


def key_rule(ctx: Ctx) -> None:
    m = ctx.model
    r = ctx.rule("R15.key", "lookups on user-controlled keys are guarded or closed over the grammar")
    # labels[..] inside try/except KeyError -> ParserLabelException
    for cn, mn in (("RiscvParser", "_convert_label_or_imm"), ("ToyParser", "_load_instructions")):
        f = m.method(cn, mn, own=True)
        subs = [n for n in walk_no_nested(f.node) if isinstance(n, ast.Subscript) and ast.unparse(n.value) in ("labels", "self.labels")
                and isinstance(n.ctx, ast.Load)]
        if not subs:
            raise AnalysisError(f"R15.key: labels[..] lookup vanished from {cn}.{mn}")
        for sb in subs:
            ok = False
            for t in walk_no_nested(f.node):
                if isinstance(t, ast.Try) and any(sb is x for st in t.body for x in ast.walk(st)):
                    for h in t.handlers:
                        if h.type is not None and ast.unparse(h.type) in ("KeyError", "Exception", "LookupError"):
                            ok = any(isinstance(rz, ast.Raise) and isinstance(rz.exc, ast.Call) and ast.unparse(rz.exc.func) == "ParserLabelException"
                                     for rz in ast.walk(h))
            r.check(ok, f"{cn}.{mn}|labels[]", f.loc(sb), "an unknown label would escape as KeyError instead of ParserLabelException")
    # variables[..] dominated by a `not in self.variables` raise
    f = m.method("RiscvParser", "_process_pseudo_instructions", own=True)
    for n in walk_no_nested(f.node):
        if isinstance(n, ast.If) and any(isinstance(x, ast.Subscript) and ast.unparse(x.value) == "self.variables" for st in n.body for x in ast.walk(st)):
            pass
    subs = [n for n in walk_no_nested(f.node) if isinstance(n, ast.Subscript) and ast.unparse(n.value) == "self.variables" and isinstance(n.ctx, ast.Load)]
    guards = [n for n in walk_no_nested(f.node) if isinstance(n, ast.If) and "not in self.variables" in ast.unparse(n.test)
              and n.body and isinstance(n.body[-1], ast.Raise)]
    for sb in subs:
        ok = any(g.lineno < sb.lineno and _same_block_after(f, g, sb) for g in guards)
        r.check(ok, "RiscvParser._process_pseudo_instructions|variables[]", f.loc(sb),
                "self.variables[..] is not dominated by a `not in self.variables -> raise ParserVariableException` guard")
    if len(subs) < 2:
        raise AnalysisError("R15.key: variables[..] lookups vanished")
    # instruction_map[..] / _reg_mapping[..] keys come from oneOf lists that are subsets of the tables
    for cn in ("RiscvParser", "ToyParser"):
        pc = m.cls(cn)
        ge = GrammarEval(m, pc)
        mnems = set()
        for x in ast_walk_g(ge.get("_pattern_line")):
            if x.name == "mnemonic":
                for y in ast_walk_g(x):
                    if y.kind == "oneof":
                        mnems |= {s.lower() for s in oneof_strings(y)}
                    if y.kind == "lit":
                        mnems.add(y.s.lower())
        mod = m.module("isa.riscv.rv32i_instructions" if cn == "RiscvParser" else "isa.toy.toy_instructions")
        try:
            keys = {k.lower() for k in fold_in(m, mod, mod.assigns["instruction_map"])}
        except Unknown as exc:
            raise AnalysisError(f"instruction_map does not fold: {exc}")
        pseudo = {"li", "mv", "la", "nop"} if cn == "RiscvParser" else set()
        extra = mnems - keys - pseudo
        if cn == "ToyParser":
            # the TOY loader indexes instruction_map[mnemonic] without a membership test
            r.check(not extra, f"{cn}|mnemonics-in-map", pc.loc(), f"the grammar accepts mnemonics {sorted(extra)} that instruction_map does not know "
                    "(KeyError on load)", {"grammar_mnemonics": len(mnems)})
        else:
            # the RISC-V loader rejects unknown mnemonics itself (membership test checked below)
            r.inst(f"{cn}|mnemonics", {"grammar_mnemonics": len(mnems), "not_in_map": sorted(extra)})
        if cn == "RiscvParser":
            # unguarded instruction_map[..] subscripts must be dominated by the `not in instruction_map` test
            for mn in ("_write_instructions", "_process_labels"):
                g = m.method(pc, mn, own=True)
                for sb in [n for n in walk_no_nested(g.node) if isinstance(n, ast.Subscript) and ast.unparse(n.value) == "instruction_map"]:
                    t = " ".join(ast.unparse(g.node).split())
                    ok = "not in instruction_map" in t or "in instruction_map" in t
                    r.check(ok, f"RiscvParser.{mn}|instruction_map[]", g.loc(sb), "instruction_map[..] without a membership test")
    reg = GrammarEval(m, m.cls("RiscvParser")).get("_pattern_register")
    abi = set()
    for x in ast_walk_g(reg):
        if x.kind == "oneof" and not all(s.isdigit() for s in oneof_strings(x)):
            abi |= set(oneof_strings(x))
    try:
        table = set(fold_in(m, m.cls("RiscvParser").module, m.cls("RiscvParser").assigns["_reg_mapping"], m.cls("RiscvParser")))
    except Unknown as exc:
        raise AnalysisError(f"_reg_mapping does not fold: {exc}")
    r.check(abi <= table and len(abi) >= 30, "RiscvParser|abi-names", m.cls("RiscvParser").loc(), f"register names {sorted(abi - table)} are accepted "
            "by the grammar but missing from _reg_mapping")
    r.floor(9)


def _same_block_after(f: FuncInfo, guard: ast.If, node: ast.AST) -> bool:
    """node lies after `guard` in a statement list that contains guard (same or nested deeper)."""
    for n in ast.walk(f.node):
        for fld in ("body", "orelse"):
            blk = getattr(n, fld, None)
            if isinstance(blk, list) and guard in blk:
                i = blk.index(guard)
                for st in blk[i + 1:]:
                    if any(node is x for x in ast.walk(st)):
                        return True
    return False


def strtok_rule(ctx: Ctx) -> None:
    """RiscvParser._list_access_at_zero_and_remove_inline_labels stores `p[0]` of every line in self.text / self.data: a ParseResults
    for an instruction or declaration with operands, a plain `str` for a label line, ecall / ebreak / nop.  Every later use of such an
    entry as a ParseResults (an attribute or method that `str` does not have) must therefore be dominated by a test that the entry
    is not a str -- otherwise some input text fails with a raw AttributeError instead of a parser error.

    Syntax-directed walk with the set of facts established so far (guards.facts_of): if / elif / else, guard clauses that leave the
    block (raise / continue / return / break), short-circuit `and` / `or` and conditional expressions."""
    from ..guards import facts_of
    m = ctx.model
    r = ctx.rule("R15.strtok", "entries of self.text / self.data may be plain strings: ParseResults-only attributes are used only under a not-a-str test")
    pc = m.cls("RiscvParser")
    unwrap = m.method(pc, "_list_access_at_zero_and_remove_inline_labels")
    uw = " ".join(ast.unparse(unwrap.node).split())
    if "p[0]" not in uw:
        raise AnalysisError("anchor vanished: `p[0]` unwrapping in _list_access_at_zero_and_remove_inline_labels")
    STR_ATTRS = set(dir(str))
    n_loops = n_uses = 0
    reported: set = set()

    def not_str(facts: set, name: str) -> bool:
        return (f"isinstance({name}, str)", False) in facts or (f"str == type({name})", False) in facts or (f"str is type({name})", False) in facts \
            or (f"type({name}) is str", False) in facts

    def leaves(stmts: list) -> bool:
        return bool(stmts) and isinstance(stmts[-1], (ast.Raise, ast.Return, ast.Continue, ast.Break))

    def walk_fn(f, fn_node) -> None:
        nonlocal n_loops, n_uses
        s0 = f.params[0] if f.params else "self"

        def expr(e: ast.AST, facts: set, name: str) -> None:
            nonlocal n_uses
            if isinstance(e, ast.BoolOp):
                fs = set(facts)
                for v in e.values:
                    expr(v, fs, name)
                    fs |= facts_of(v, isinstance(e.op, ast.And))
                return
            if isinstance(e, ast.IfExp):
                expr(e.test, facts, name)
                expr(e.body, facts | facts_of(e.test, True), name)
                expr(e.orelse, facts | facts_of(e.test, False), name)
                return
            if isinstance(e, ast.Attribute) and isinstance(e.value, ast.Name) and e.value.id == name and isinstance(e.ctx, ast.Load) \
                    and e.attr not in STR_ATTRS:
                n_uses += 1
                if not not_str(facts, name):
                    if f.qname in reported:
                        return  # the first unguarded use already fails for a str entry
                    reported.add(f.qname)
                r.check(not_str(facts, name), f"{short(f.qname)}|{name}.{e.attr}", f.loc(e),
                        f"{short(f.qname)}: `{name}.{e.attr}` is evaluated without a preceding `isinstance({name}, str)` test, but `{name}` is a plain "
                        "str for a label line, ecall / ebreak / nop (p[0] of the parsed line): such a line fails with AttributeError instead of a "
                        "parser error carrying the line number")
            for c in ast.iter_child_nodes(e):
                if isinstance(c, (ast.expr, ast.keyword, ast.comprehension)):
                    expr(c, facts, name)

        def exprs_of(st: ast.stmt, facts: set, name: str) -> None:
            for c in ast.iter_child_nodes(st):
                if isinstance(c, (ast.expr, ast.keyword)):
                    expr(c, facts, name)

        def block(stmts: list, facts: set, name: str) -> set:
            facts = set(facts)
            for st in stmts:
                if isinstance(st, ast.If):
                    expr(st.test, facts, name)
                    block(st.body, facts | facts_of(st.test, True), name)
                    block(st.orelse, facts | facts_of(st.test, False), name)
                    if leaves(st.body):
                        facts |= facts_of(st.test, False)
                    if leaves(st.orelse):
                        facts |= facts_of(st.test, True)
                elif isinstance(st, (ast.For, ast.While)):
                    expr(st.iter if isinstance(st, ast.For) else st.test, facts, name)
                    block(st.body, facts | (facts_of(st.test, True) if isinstance(st, ast.While) else set()), name)
                    block(st.orelse, facts, name)
                elif isinstance(st, ast.Try):
                    block(st.body, facts, name)
                    for h in st.handlers:
                        block(h.body, facts, name)
                    block(st.orelse, facts, name)
                    block(st.finalbody, facts, name)
                elif isinstance(st, ast.With):
                    for it in st.items:
                        expr(it.context_expr, facts, name)
                    block(st.body, facts, name)
                elif isinstance(st, ast.Assert):
                    expr(st.test, facts, name)
                    facts |= facts_of(st.test, True)
                elif isinstance(st, (ast.FunctionDef, ast.AsyncFunctionDef, ast.ClassDef)):
                    continue
                else:
                    exprs_of(st, facts, name)
                if any(isinstance(n, ast.Name) and n.id == name and isinstance(n.ctx, ast.Store) for n in ast.walk(st)) and not isinstance(st, (ast.If, ast.For, ast.While, ast.Try, ast.With)):
                    facts = set()
            return facts

        for loop in [n for n in walk_no_nested(fn_node) if isinstance(n, ast.For)]:
            itn, tgt = loop.iter, loop.target
            if isinstance(itn, ast.Call) and isinstance(itn.func, ast.Name) and itn.func.id == "enumerate" and 1 <= len(itn.args) <= 2 \
                    and isinstance(tgt, ast.Tuple) and len(tgt.elts) == 2:
                itn, tgt = itn.args[0], tgt.elts[1]  # for i, (n, l, p) in enumerate(self.text)
            it = ast.unparse(itn)
            if it not in (f"{s0}.text", f"{s0}.data") or not (isinstance(tgt, ast.Tuple) and len(tgt.elts) == 3 and isinstance(tgt.elts[2], ast.Name)):
                continue
            n_loops += 1
            block(loop.body, set(), tgt.elts[2].id)

    after = ("_write_data", "_process_pseudo_instructions", "_process_labels", "_write_instructions")
    for name in after:
        f = m.method(pc, name)
        walk_fn(f, f.node)
    r.inst("loops", {"loops": n_loops, "ParseResults-only uses": n_uses})
    if n_loops < 4 or n_uses < 10:
        ctx.floor_misses.append(f"R15.strtok: only {n_loops} loops over self.text/self.data and {n_uses} ParseResults-only uses found")



def run(ctx: Ctx) -> None:
    m = ctx.model
    int_rule(ctx)
    raise_rule(ctx)
    line_rule(ctx)

    r = ctx.rule("R15.tok", "tokeniser converts pyparsing failures into syntax errors with the line")
    f = m.method("Parser", "_tokenize", own=True)
    ok = False
    for t in walk_no_nested(f.node):
        if isinstance(t, ast.Try) and any(isinstance(c.func, ast.Attribute) and c.func.attr in ("parseString", "parse_string") for st in t.body for c in calls_in(st)):
            for h in t.handlers:
                if h.type is not None and ast.unparse(h.type) in ("pp.ParseException", "pp.ParseBaseException", "Exception"):
                    ok = any(isinstance(rz, ast.Raise) and isinstance(rz.exc, ast.Call) and ast.unparse(rz.exc.func) == "ParserSyntaxException"
                             and {k.arg: ast.unparse(k.value) for k in rz.exc.keywords} == {"line_number": "line_number", "line": "line"}
                             for rz in ast.walk(h))
    r.check(ok, "Parser._tokenize", f.loc(), "_tokenize does not convert pp.ParseException into ParserSyntaxException(line_number, line)")
    # the line pattern consumes the whole line
    for cn in ("RiscvParser", "ToyParser"):
        g = GrammarEval(m, m.cls(cn)).get("_pattern_line")
        r.check(g.kind == "seq" and g.items[-1].kind == "sup" and g.items[-1].items[0].kind == "end", f"{cn}._pattern_line|StringEnd", m.cls(cn).loc(),
                f"{cn}._pattern_line does not end with StringEnd: trailing garbage would be accepted silently")

    key_rule(ctx)
    strtok_rule(ctx)
    fault_rule(ctx, "R15.rt")
    from ..pipelinespec import step_rule
    step_rule(ctx, "R15.step", raises_only=True)
    # an illegal data address is reported by the instruction that uses it: the three widths of a cached store reach the range check
    # of the backing memory the same way (a width that skips the block fetch accepts the store and lets a later eviction fail)
    from ..siblingrule import sibling_rule
    sibling_rule(ctx, "R15.sib", groups=[("WriteBackMemorySystem", "write"), ("WriteThroughMemorySystem", "write"), ("BaseCacheMemorySystem", "read")], mode="data")

    r = ctx.rule("R15.gui", "front-end error classification")
    f = m.func("gui.webgui.get_last_error")
    from ..flowspec import compare
    compare(r, m, f, GET_LAST_ERROR_REF, "webgui.get_last_error", keep=lambda k, s_: False,
            what="errors are classified by isinstance on ParserException (with its line number) and InstructionExecutionException "
                 "(with its address); everything else is 'Unknown'")
