"""C16 -- inspection is pure.

R16.pure  effect closure of every inspection entry point is empty, over all
          CHA dispatch targets (every memory back end, cache class,
          replacement policy, both ISAs).
R16.api   every Python method the web front end calls on a simulation, other
          than the documented mutators, is one of those entry points.
R16.flag  uncounted reads (update_statistics=False) write no statistic.
R16.dyn   the package has no setattr / __dict__ / globals() stores that the
          class-hierarchy call graph could not see.
"""
from __future__ import annotations

import ast

from ..common import SIM_MUTATORS, effects, frontend_calls, short
from ..model import AnalysisError, walk_no_nested
from ..report import Ctx

EXPLANATION = (
    "Decides purity of the inspection API statically: for every public non-mutator method of "
    "RiscvSimulation, ToySimulation and Simulation the interprocedural write-effect summary "
    "(may-alias refs, freshness of locally constructed objects, class-hierarchy dispatch over "
    "all subclasses) must be empty; no writes => no later observable difference, for every "
    "program, cache configuration and interleaving at once. Also checks that every method the "
    "web front end calls is covered, and that uncounted reads touch no counter."
)
ASSUMPTIONS = [
    "external callee table (builtins, str/list/dict methods, fixedint, pyparsing, time, math) "
    "classifies mutating vs pure correctly",
    "no monkey-patching: R16.dyn checks the package contains no setattr/__dict__/globals() stores",
    "reading the wall clock (time.time) is not a state change",
]
TRUSTED = ["CPython ast", "sa.effects alias/effect abstraction", "external callee table"]

SIM_CLASSES = ["RiscvSimulation", "ToySimulation", "Simulation"]
STAT_FIELDS = {"hits", "accesses", "last_was_hit", "cycles"}
ENTRY_FLOOR = 20


def entry_points(ctx: Ctx):
    m = ctx.model
    out = []
    for cn in SIM_CLASSES:
        c = m.cls(cn)
        for name, f in sorted(c.methods.items()):
            if name.startswith("_") or name in SIM_MUTATORS:
                continue
            if any(d.endswith("abstractmethod") for d in f.decorators):
                continue
            out.append(f)
    return out


def run(ctx: Ctx) -> None:
    m = ctx.model
    eff = effects(ctx)
    eps = entry_points(ctx)

    r = ctx.rule("R16.pure", "write-effect closure of each inspection entry point is empty")
    closure_funcs: set = set()
    for f in eps:
        s = eff.solved(f)
        clo = eff.closure(f)
        closure_funcs |= {k[0] for k in clo}
        key = short(f.qname)
        if s.unresolved:
            (o, t), ch = sorted(s.unresolved.items())[0]
            raise AnalysisError(
                f"R16.pure {key}: call not resolvable and not in the external table: `{t}` at {o}"
                + (f" via {ch[0]}" if ch else ""))
        r.inst(key, {"closure_functions": len(clo), "writes": len(s.writes)})
        for w in sorted(s.writes.values(), key=lambda w: (w.where, w.text)):
            r.viol(f"{key}|{short(w.where)}:{w.text}", w.origin,
                   f"inspection function {key} can write {w.describe()}",
                   [f"entry {f.qname}"] + list(w.chain) + [f"store in {w.where}: `{w.text}` at {w.origin}"])
    r.floor(ENTRY_FLOOR)
    ctx.extra["closure_functions_total"] = len(closure_funcs)
    if len(closure_funcs) < 60:
        raise AnalysisError(f"R16.pure: closure has only {len(closure_funcs)} functions (floor 60)")

    r = ctx.rule("R16.api", "front-end calls are mutators or analysed entry points")
    called = frontend_calls(ctx)
    names = {f.name for f in eps}
    for c in sorted(called):
        ok = c in names or c in SIM_MUTATORS
        r.check(ok, c, "webgui/src", f"front end calls simulation.{c}() which is neither a "
                f"documented mutator nor an analysed inspection entry point")
    r.floor(15)

    r = ctx.rule("R16.flag", "uncounted reads write no statistic field")
    base = m.cls("BaseCacheMemorySystem")
    for name in ("read_byte", "read_halfword", "read_word"):
        for f in sorted(m.dispatch(base, name), key=lambda x: x.qname):
            if "update_statistics" not in f.params:
                continue
            s = eff.solved(f, frozenset({("update_statistics", False)}))
            key = short(f.qname)
            bad = [w for w in s.writes.values() if w.path and w.path[-1] in STAT_FIELDS]
            r.inst(key, {"writes_when_uncounted": len(s.writes)})
            for w in bad:
                r.viol(f"{key}|{w.text}", w.origin,
                       f"{key}(update_statistics=False) still writes {w.describe()}", list(w.chain))
    r.floor(3)

    r = ctx.rule("R16.dyn", "no dynamic attribute stores hidden from the call graph")
    n_funcs = 0
    for f in m.functions.values():
        if ".cli." in f.qname:
            continue
        n_funcs += 1
        for n in walk_no_nested(f.node):
            bad = None
            if isinstance(n, ast.Call) and isinstance(n.func, ast.Name) and n.func.id in ("setattr", "delattr", "exec", "eval"):
                bad = n.func.id
            if isinstance(n, ast.Call) and isinstance(n.func, ast.Name) and n.func.id in ("globals", "locals"):
                bad = n.func.id + "()"
            if isinstance(n, ast.Attribute) and n.attr == "__dict__" and isinstance(n.ctx, ast.Load):
                bad = "__dict__"
            if bad:
                r.viol(f"{short(f.qname)}|{bad}", f.loc(n),
                       f"{bad} in {f.qname}: dynamic stores are invisible to the effect analysis")
    r.inst("package", {"functions_scanned": n_funcs})
