"""C17 -- displayed values (structural clauses).

R17.sorted  tables are emitted in ascending address order (sorted() over the repr dict /
            the instruction dict), not in first-write order.
R17.width   stated width = stored width at every formatter call: registers 32, TOY accu 16,
            pc 12, instruction register 16, RISC-V memory table 32, TOY memory table 16;
            _memory_repr passes one width to reader selection, alignment and formatter.
R17.fmt     the n-bit formatter, evaluated for n in {12, 16, 32}: mask = low n bits
            (bit-slice domain), sign threshold 2^(n-1) with offset 2^n, binary and hex field
            widths n and n/4, grouping 8 / 2, result order (bin, udec, hex, sdec).
R17.rows    memory tables are built from the backing store's keys, aligned to the row width.
"""
from __future__ import annotations

import ast

from ..bitslice import Evaluator, Form, Inconclusive
from ..common import const_int, seg, short
from ..consteval import Folder, Unknown, Val
from ..linear import linform
from ..model import AnalysisError, walk_no_nested
from ..paths import calls_in
from ..report import Ctx

EXPLANATION = (
    "Decides what is structural about faithful display: ascending order by construction "
    "(iteration over sorted(...)), agreement between the width each call site states and the "
    "fixed-width type of the value it formats, and the formatter's own constants, which are "
    "folded for each width in use (mask by bit-slice evaluation, two's-complement threshold and "
    "offset, field widths, grouping, tuple order). The digit strings for particular values are "
    "produced by Python's format/str and are not re-derived."
)
ASSUMPTIONS = ["widths in use are 12, 16 and 32 (checked: the only call sites)", "str.format renders {:0Nb}/{:0NX} as documented"]
TRUSTED = ["CPython ast", "sa.consteval", "sa.bitslice"]

WIDTHS = (12, 16, 32)

GROUPIFY_REF = '''
def groupify_string(string, group_size, separator=" "):
    reversed_string = string[::-1]
    num_groups = math.ceil((len(reversed_string) / group_size))
    grouped_string = separator.join(reversed_string[i * group_size : (i + 1) * group_size] for i in range(num_groups))
    return grouped_string[::-1]
'''


def run(ctx: Ctx) -> None:
    m = ctx.model

    r = ctx.rule("R17.sorted", "tables are built by iterating sorted(..)")
    from ..parsershape import normal_flow

    def row_source(cn: str, mn: str):
        """(function, iterable the rows are generated from, in generation order) from the normal form of the function:
        loops that append, comprehensions and temporaries all arrive as one comprehension."""
        f = m.method(cn, mn, own=True)
        fl = normal_flow(m, f)
        if len(fl.returns) != 1 or fl.canon_cond(fl.returns[0].cond) != "TRUE":
            return f, None, None
        v = fl.returns[0].value
        outer_sorted = False
        if isinstance(v, ast.Call) and isinstance(v.func, ast.Name) and v.func.id == "sorted" and len(v.args) == 1 and not v.keywords:
            v, outer_sorted = v.args[0], True
        while isinstance(v, ast.Call) and isinstance(v.func, ast.Name) and v.func.id == "list" and len(v.args) == 1 and not v.keywords \
                and isinstance(v.args[0], (ast.GeneratorExp, ast.ListComp)):
            v = v.args[0]  # list(<rows>) of a generator / of a list that was just built: those rows
        if not isinstance(v, (ast.ListComp, ast.GeneratorExp)) or len(v.generators) != 1:
            return f, None, None
        return f, v.generators[0].iter, (outer_sorted, v)

    def is_sorted_items(it: ast.AST) -> bool:
        return isinstance(it, ast.Call) and isinstance(it.func, ast.Name) and it.func.id == "sorted" and len(it.args) == 1 \
            and not it.keywords and isinstance(it.args[0], ast.Call) and isinstance(it.args[0].func, ast.Attribute) \
            and it.args[0].func.attr == "items" and not it.args[0].args

    for cn, mn in (("RiscvSimulation", "get_data_memory_entries"), ("ToySimulation", "get_memory_table_entries"), ("InstructionMemory", "get_representation")):
        f, it, extra = row_source(cn, mn)
        ok = it is not None and is_sorted_items(it)
        if it is not None and not ok and extra[0]:
            # rows sorted afterwards: fine when every row starts with the (unique) key
            comp = extra[1]
            tgt = comp.generators[0].target
            key = tgt.elts[0].id if isinstance(tgt, ast.Tuple) and isinstance(tgt.elts[0], ast.Name) else None
            first = comp.elt.elts[0] if isinstance(comp.elt, ast.Tuple) and comp.elt.elts else None
            while isinstance(first, ast.Tuple) and first.elts:
                first = first.elts[0]
            ok = key is not None and isinstance(first, ast.Name) and first.id == key
        r.check(ok, f"{cn}.{mn}", f.loc(), f"{cn}.{mn} does not build its rows by iterating sorted(<repr>.items()): the table would "
                f"follow first-write order of the backing dict (rows come from `{ast.unparse(it) if it is not None else '?'}`)")
    f, it, extra = row_source("RiscvSimulation", "get_instruction_memory_entries")
    ok = it is not None and isinstance(it, ast.Call) and isinstance(it.func, ast.Attribute) and it.func.attr == "get_representation" \
        and ast.unparse(it.func.value).endswith("instruction_memory") and not extra[0]
    r.check(ok, "RiscvSimulation.get_instruction_memory_entries", f.loc(), "instruction table does not follow get_representation() order")
    r.floor(4)

    r = ctx.rule("R17.width", "stated width = stored width")
    mod = m.module("util.integer_representations")
    for n in WIDTHS:
        g = mod.functions.get(f"get_{n}_bit_representations")
        if g is None:
            raise AnalysisError(f"anchor vanished: get_{n}_bit_representations")
        calls = [c for c in calls_in(g.node) if isinstance(c.func, ast.Name) and c.func.id == "get_n_bit_representations"]
        ok = len(calls) == 1
        if ok:
            kw = {k.arg: k.value for k in calls[0].keywords}
            nv = kw.get("n", calls[0].args[1] if len(calls[0].args) > 1 else None)
            xv = kw.get("number", calls[0].args[0] if calls[0].args else None)
            ok = nv is not None and const_int(nv) == n and xv is not None and ast.unparse(xv) == g.params[0]
        r.check(ok, f"get_{n}_bit_representations", g.loc(), f"get_{n}_bit_representations does not format its argument with n={n}")
    sites = [
        ("RegisterFile", "reg_repr", "get_32_bit_representations", "int(reg)", "registers: list[fixedint.UInt32]"),
        ("ToySimulation", "get_register_representations", "get_16_bit_representations", "int(self.state.accu)", "accu = UInt16"),
        ("ToySimulation", "get_register_representations", "get_12_bit_representations", "int(self.state.program_counter)", "program_counter: UInt12"),
        ("ToySimulation", "get_register_representations", "get_16_bit_representations", "int(self.state.loaded_instruction)", "16-bit encoding (R19.fields)"),
    ]
    from ..pathsym import subst as _subst
    from ..wiring import _single_assigned
    for cn, mn, fn, arg, why in sites:
        f = m.method(cn, mn, own=True)
        al = _single_assigned(f.node)  # `state = self.state` and the like
        ok = any(isinstance(c.func, ast.Name) and c.func.id == fn and [ast.unparse(_subst(a, al)) for a in c.args] == [arg] for c in calls_in(f.node))
        r.check(ok, f"{cn}.{mn}|{arg}", f.loc(), f"{cn}.{mn} no longer formats `{arg}` with {fn} ({why})")
    # every formatter call in the package is one of the recognised sites (widths cannot drift elsewhere)
    known_fn = {f"get_{n}_bit_representations" for n in WIDTHS} | {"get_n_bit_representations"}
    allowed_callers = {"RegisterFile.reg_repr", "ToySimulation.get_register_representations", "Memory._memory_repr",
                       "get_12_bit_representations", "get_16_bit_representations", "get_32_bit_representations"}
    for f in m.functions.values():
        if ".cli." in f.qname:
            continue
        for c in calls_in(f.node):
            if isinstance(c.func, ast.Name) and c.func.id in known_fn:
                sq = short(f.qname) if f.cls else f.name
                if sq in allowed_callers:
                    r.inst(f"{sq}|{c.func.id}", None)
                else:
                    ctx.notes.append(f"R17.width: formatter call site {sq} ({seg(f, c)}) is not in the table; its width is not decided")
    # declared types of the formatted values
    st = m.cls("ToyArchitecturalState")
    init = m.method(st, "__init__", own=True)
    txt = " ".join(ast.unparse(init.node).split())
    r.check("self.program_counter: UInt12 = UInt12(1)" in txt, "ToyArchitecturalState.program_counter", init.loc(), "TOY pc is not a UInt12")
    r.check("self.accu = UInt16(0)" in txt, "ToyArchitecturalState.accu", init.loc(), "TOY accu is not a UInt16")
    u12 = m.module("util.fixedint_12").assigns.get("UInt12")
    r.check(u12 is not None and " ".join(ast.unparse(u12).split()) in ("fixedint.FixedInt(12, signed=False, mutable=False)",
                                                                     "fixedint.FixedInt(12, signed=False)"),
            "UInt12", "architecture_simulator/util/fixedint_12.py:3", "UInt12 is not a 12-bit unsigned fixedint")
    # memory tables
    mem = m.cls("Memory")
    for name, bits in (("bytewise_repr", 8), ("half_wordwise_repr", 16), ("wordwise_repr", 32), ("double_wordwise_repr", 64)):
        f = m.method(mem, name, own=True)
        rets = [n for n in walk_no_nested(f.node) if isinstance(n, ast.Return)]
        ok = len(rets) == 1 and rets[0].value is not None and ast.unparse(rets[0].value) == f"{f.params[0]}._memory_repr({bits})"
        r.check(ok, f"Memory.{name}", f.loc(), f"Memory.{name} does not render {bits}-bit rows")
    f = m.method("RiscvSimulation", "get_data_memory_entries", own=True)
    r.check(".memory.wordwise_repr()" in ast.unparse(f.node), "RiscvSimulation.get_data_memory_entries|rows", f.loc(), "RISC-V memory table is not word-wise")
    f = m.method("ToySimulation", "get_memory_table_entries", own=True)
    r.check(".memory.half_wordwise_repr()" in ast.unparse(f.node), "ToySimulation.get_memory_table_entries|rows", f.loc(), "TOY memory table is not half-word-wise")
    r.floor(18)

    rows_rule(ctx)
    fmt_rule(ctx)


def rows_rule(ctx: Ctx) -> None:
    """_memory_repr in normal form (loop normalisation + symflow): one row per written address, keyed by the address
    rounded down to the row width, read with the accessor of that width and formatted with that width.  Locals,
    if/elif versus conditional expressions, `continue` versus a nested if do not matter."""
    from ..parsershape import normal_flow
    m = ctx.model
    r = ctx.rule("R17.rows", "_memory_repr: rows from the backing store's keys, aligned, one width throughout (normal form)")
    f = m.method("Memory", "_memory_repr")
    fl = normal_flow(m, f)
    stores = [e for e in fl.effects if e.kind == "store" and isinstance(e.expr.targets[0], ast.Subscript)]  # type: ignore[attr-defined]
    if len(stores) != 1:
        r.check(False, "Memory._memory_repr|read", f.loc(), f"expected one store of a formatted row per address, found {len(stores)}")
        return
    e = stores[0]
    tgt, val = e.expr.targets[0], e.expr.value  # type: ignore[attr-defined]
    key = fl.canon(tgt.slice)
    elems = [f"ELEM1.0({it})" for it in ("P0.memory_file.keys()", "P0.memory_file", "list(P0.memory_file)", "list(P0.memory_file.keys())", "sorted(P0.memory_file)")]
    el = next((x for x in elems if x in key), None)
    r.check(el is not None, "Memory._memory_repr|keys", f.loc(e.node), f"rows are not derived from the addresses actually written (row key: {fl.show(tgt.slice)})")
    if el is None:
        return
    cells = "FloorDiv(P1, P0.memory_file_values_width)"
    aa = f"Sub({el}, Mod({el}, {cells}))"
    r.check(key == aa, "Memory._memory_repr|align", f.loc(e.node),
            f"row address is `{fl.show(tgt.slice)}`, not the written address rounded down to the row width (address - address % (width // cell width))")
    want_word = (f"cases[Eq(16, P1); Eq(32, P1); Eq(8, P1)]{{P0.read_byte(address={aa}) #10; P0.read_doubleword(address={aa}) #1; "
                 f"P0.read_halfword(address={aa}) #2; P0.read_word(address={aa}) #4}}")
    ok = isinstance(val, ast.Call) and isinstance(val.func, ast.Name) and val.func.id == "get_n_bit_representations"
    got_word = got_n = None
    if ok:
        from ..cacheshape import call_args  # noqa: F401
        fn = m.module("util.integer_representations").functions.get("get_n_bit_representations")
        params = fn.params if fn is not None else ["number", "n"]
        a = {p_: v for p_, v in zip(params, val.args)}
        a.update({k.arg: k.value for k in val.keywords})
        num, nn = a.get(params[0]), a.get(params[1])
        got_n = fl.canon(nn) if nn is not None else None
        if isinstance(num, ast.Call) and isinstance(num.func, ast.Name) and num.func.id == "int" and num.args:
            got_word = fl.canon(num.args[0])
    r.check(ok and got_n == "P1", "Memory._memory_repr|format", f.loc(e.node), f"the row value is not formatted with the row width (n = {got_n})")
    r.check(got_word is not None and _same_cases(got_word, want_word), "Memory._memory_repr|reader", f.loc(e.node),
            f"the row value is `{got_word}`; it must be read at the aligned address with read_byte / read_halfword / read_word / "
            "read_doubleword for 8 / 16 / 32 / other row widths")
    # one row per aligned address: the store happens exactly when the row is not there yet
    cond = fl.canon_cond(e.cond)
    import re as _re
    mm = _re.fullmatch(r"BOOL\[In\((.+), (\{\}|dict\(\))\); LOOP1\]#4", cond)
    r.check(mm is not None and mm.group(1) == aa, "Memory._memory_repr|read", f.loc(e.node),
            f"a row is not stored exactly when its aligned address has no row yet -- for every written address, nothing else decides "
            f"(condition: {cond}): a word that contains a written byte could be missing from the table")
    rets = [fl.canon(x.value) for x in fl.returns]
    r.inst("Memory._memory_repr|returns", rets)
    # "the addresses actually written": nothing but a store may add a key to the backing dict -- a read that
    # inserts its default (setdefault) would make never-written cells show up as rows
    from ..common import all_functions
    for g in all_functions(m):
        for n in walk_no_nested(g.node):
            if isinstance(n, ast.Call) and isinstance(n.func, ast.Attribute) and isinstance(n.func.value, ast.Attribute) \
                    and n.func.value.attr == "memory_file" and n.func.attr in ("setdefault", "update", "__setitem__", "fromkeys"):
                ok = g.cls is not None and g.cls.name == "Memory" and g.name == "_write_value"
                r.check(ok, f"{short(g.qname)}|memory_file.{n.func.attr}", g.loc(n),
                        f"{short(g.qname)} adds keys to memory_file with `{n.func.attr}` outside the store path: the memory table lists "
                        "every key as a written address")
    r.floor(6)


def _same_cases(a: str, b: str) -> bool:
    """Two `cases[...]` prints with the same leaves and tables (the atom order inside [...] is canonical already)."""
    return a == b


def fmt_rule(ctx: Ctx) -> None:
    """The n-bit formatter, for n in {12, 16, 32}.  The function's result is taken in normal form (locals substituted,
    if/else merged into conditional values); the unsigned and signed values are then *evaluated* in the bit-slice
    domain (sa.absrun's evaluator: the sign test `u >= 2**(n-1)` is the top bit of the n-bit field, so
    `u - 2**n if .. else u` evaluates to the signed n-bit field), and the two format strings are folded."""
    from ..absrun import AbsRun
    from ..flowspec import merged_result
    from ..parsershape import normal_flow
    m = ctx.model
    r = ctx.rule("R17.fmt", "n-bit formatter: masked value, signed value, digit counts for n in {12,16,32} (normal form + bit-slice evaluation)")
    mod = m.module("util.integer_representations")
    f = mod.functions.get("get_n_bit_representations")
    hx = mod.functions.get("to_hex_str")
    gp = mod.functions.get("groupify_string")
    if None in (f, hx, gp):
        raise AnalysisError("anchor vanished: formatter functions")
    num, nn = f.params[0], f.params[1]
    fl = normal_flow(m, f)
    res = merged_result(fl)
    if len(res) != 4:
        r.check(False, "result-tuple", f.loc(), f"the formatter does not return a 4-tuple (bin, unsigned, hex, signed): {[fl.show(x) for x in res]}")
        return

    def arg(call: ast.AST, pos: int, name: str):
        if not isinstance(call, ast.Call):
            return None
        for k in call.keywords:
            if k.arg == name:
                return k.value
        return call.args[pos] if len(call.args) > pos else None

    def is_call(e: ast.AST, fn: str) -> bool:
        return isinstance(e, ast.Call) and isinstance(e.func, ast.Name) and e.func.id == fn

    e_bin, e_u, e_hex, e_s = res
    ok = is_call(e_bin, "groupify_string") and is_call(e_hex, "groupify_string") and is_call(e_u, "str") and is_call(e_s, "str") \
        and const_int(arg(e_bin, 1, "group_size")) == 8 and const_int(arg(e_hex, 1, "group_size")) == 2
    r.check(ok, "result-tuple", f.loc(), "result is not (bin grouped by 8, str(unsigned), hex grouped by 2, str(signed)): "
            + ", ".join(fl.show(x)[:80] for x in res))
    if not ok:
        return
    u_expr, s_expr = e_u.args[0], e_s.args[0]
    bin_str, hex_str = arg(e_bin, 0, "string"), arg(e_hex, 0, "string")
    ucanon = fl.canon(u_expr)

    def fmt_parts(e: ast.AST):
        """(formatted value, spec as a list of AST pieces to fold and join) for `"{:SPEC}".format(v)` or f"{v:SPEC}"."""
        if isinstance(e, ast.Call) and isinstance(e.func, ast.Attribute) and e.func.attr == "format" and len(e.args) == 1 and not e.keywords:
            return e.args[0], ("template", e.func.value)
        if isinstance(e, ast.JoinedStr) and len(e.values) == 1 and isinstance(e.values[0], ast.FormattedValue) and e.values[0].conversion == -1 \
                and e.values[0].format_spec is not None:
            return e.values[0].value, ("spec", e.values[0].format_spec)
        return None, None

    def fold_spec(spec, folder) -> str | None:
        """The format spec as text (`0{n}b`), from either form."""
        kind, node = spec
        try:
            if kind == "template":
                t = folder.fold(node)
                return t[2:-1] if isinstance(t, str) and t.startswith("{:") and t.endswith("}") else None
            out = ""
            for v in node.values:
                if isinstance(v, ast.Constant):
                    out += str(v.value)
                elif isinstance(v, ast.FormattedValue) and v.format_spec is None:
                    x = folder.fold(v.value)
                    out += str(x)
                else:
                    return None
            return out
        except Unknown:
            return None

    bval, bspec = fmt_parts(bin_str)
    ok = bval is not None and fl.canon(bval) == ucanon
    r.check(ok, "bin_string", f.loc(), "binary digits are not rendered from the masked value")
    ok_hex = is_call(hex_str, "to_hex_str") and fl.canon(arg(hex_str, 0, hx.params[0])) == ucanon and fl.canon(arg(hex_str, 1, hx.params[1])) == "P1"
    r.check(ok_hex, "hex_string", f.loc(), "hex digits are not rendered from the masked value at width n")
    hfl = normal_flow(m, hx)
    hres = merged_result(hfl)
    hval, hspec = fmt_parts(hres[0]) if len(hres) == 1 else (None, None)
    ok_h = hval is not None and hfl.canon(hval) == "P0"
    r.check(ok_h, "to_hex_str|return", hx.loc(), "to_hex_str does not format its number")
    for n in WIDTHS:
        run = AbsRun(m, f, {num: Form.var("x")}, {nn: n})
        arms = [u_expr]
        try:
            us = [run.ev.ev(u_expr)]
        except Inconclusive:
            # a conditional reduction whose test is not decidable in the domain: every arm must reduce correctly
            while any(isinstance(a, ast.IfExp) for a in arms):
                arms = [b for a in arms for b in ((a.body, a.orelse) if isinstance(a, ast.IfExp) else (a,))]
            try:
                us = [run.ev.ev(a) for a in arms]
            except Inconclusive as exc:
                raise AnalysisError(f"R17.fmt: the unsigned value is outside the bit-slice domain: {exc}")
        for u, arm in zip(us, arms):
            r.check(u == Form.field("x", 0, n), f"n={n}|mask", f.loc(), f"for n={n} the value is reduced to {u.describe()} (`{fl.show(arm)}`) "
                    f"instead of its low {n} bits (two's complement for negative and over-wide inputs)")
        if len(us) != 1:
            continue
        try:
            sg = run.ev.ev(s_expr)
            sdesc = sg.describe()
            oks = sg == Form.field("x", 0, n, signed=True)
        except Inconclusive as exc:
            sdesc, oks = f"not decidable ({exc})", False
        r.check(oks, f"n={n}|sign", f.loc(), f"for n={n} the signed value is {sdesc}; it must be the n-bit two's complement reading "
                f"`u - 2^{n} if u >= 2^{n - 1} else u`")
        fold = Folder(m, mod, None, {nn: Val(n)})
        bf = fold_spec(bspec, fold) if bspec is not None else None
        r.check(bf == "0" + str(n) + "b", f"n={n}|bin-width", f.loc(), f"binary format spec for n={n} is {bf!r}")
        hf = fold_spec(hspec, Folder(m, mod, None, {hx.params[1]: Val(n)})) if ok_h and hspec is not None else None
        r.check(hf == "0" + str(n // 4) + "X", f"n={n}|hex-width", hx.loc(), f"hex format spec for n={n} is {hf!r}, expected {n // 4} upper-case digits")
    # grouping goes right to left
    from ..flowspec import signature
    ok = signature(m, gp) == signature(m, gp, GROUPIFY_REF)
    r.check(ok, "groupify_string", gp.loc(), f"digit grouping no longer counts groups from the right (recovered: {signature(m, gp)[0]})")
    r.floor(17)
