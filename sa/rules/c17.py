"""C17 -- displayed values (structural clauses).

R17.sorted  tables are emitted in ascending address order (sorted() over the repr dict /
            the instruction dict), not in first-write order.
R17.width   stated width = stored width at every formatter call: registers 32, TOY accu 16,
            pc 12, instruction register 16, RISC-V memory table 32, TOY memory table 16;
            _memory_repr passes one width to reader selection, alignment and formatter.
R17.fmt     the n-bit formatter, evaluated for n in {12, 16, 32}: mask = low n bits
            (bit-slice domain), sign threshold 2^(n-1) with offset 2^n, binary and hex field
            widths n and n/4, grouping 8 / 2, result order (bin, udec, hex, sdec).
R17.rows    memory tables are built from the backing store's keys, aligned to the row width.
"""
from __future__ import annotations

import ast

from ..bitslice import Evaluator, Form, Inconclusive
from ..common import const_int, seg, short
from ..consteval import Folder, Unknown, Val
from ..linear import linform
from ..model import AnalysisError, walk_no_nested
from ..paths import calls_in
from ..report import Ctx

EXPLANATION = (
    "Decides what is structural about faithful display: ascending order by construction "
    "(iteration over sorted(...)), agreement between the width each call site states and the "
    "fixed-width type of the value it formats, and the formatter's own constants, which are "
    "folded for each width in use (mask by bit-slice evaluation, two's-complement threshold and "
    "offset, field widths, grouping, tuple order). The digit strings for particular values are "
    "produced by Python's format/str and are not re-derived."
)
ASSUMPTIONS = ["widths in use are 12, 16 and 32 (checked: the only call sites)", "str.format renders {:0Nb}/{:0NX} as documented"]
TRUSTED = ["CPython ast", "sa.consteval", "sa.bitslice"]

WIDTHS = (12, 16, 32)


def run(ctx: Ctx) -> None:
    m = ctx.model

    r = ctx.rule("R17.sorted", "tables are built by iterating sorted(..)")
    for cn, mn, var in (("RiscvSimulation", "get_data_memory_entries", None), ("ToySimulation", "get_memory_table_entries", None)):
        f = m.method(cn, mn, own=True)
        loops = [n for n in walk_no_nested(f.node) if isinstance(n, (ast.For, ast.comprehension))]
        ok = False
        sorted_locals = set()
        for n in walk_no_nested(f.node):
            if isinstance(n, ast.Assign) and isinstance(n.targets[0], ast.Name) and isinstance(n.value, ast.Call) \
                    and isinstance(n.value.func, ast.Name) and n.value.func.id == "sorted" and not n.value.keywords:
                sorted_locals.add(n.targets[0].id)
            if isinstance(n, ast.Expr) and isinstance(n.value, ast.Call) and isinstance(n.value.func, ast.Attribute) \
                    and n.value.func.attr == "sort" and isinstance(n.value.func.value, ast.Name) and not n.value.keywords:
                sorted_locals.add(n.value.func.value.id)
        for lp in loops:
            it = lp.iter
            if isinstance(it, ast.Name) and it.id in sorted_locals:
                ok = True
            if isinstance(it, ast.Call) and isinstance(it.func, ast.Name) and it.func.id == "sorted" and len(it.args) == 1 \
                    and not any(k.arg == "reverse" for k in it.keywords) and not any(k.arg == "key" for k in it.keywords) \
                    and ast.unparse(it.args[0]).endswith(".items()"):
                ok = True
        # the result list is appended to in loop order and returned as is
        rets = [n for n in walk_no_nested(f.node) if isinstance(n, ast.Return)]
        ok = ok and len(rets) == 1 and isinstance(rets[0].value, ast.Name)
        r.check(ok, f"{cn}.{mn}", f.loc(), f"{cn}.{mn} does not build its rows by iterating sorted(<repr>.items()): the table would "
                "follow first-write order of the backing dict")
    f = m.method("InstructionMemory", "get_representation", own=True)
    txt = " ".join(ast.unparse(f.node).split())
    ok = "sorted(self.instructions.items(), key=lambda el: el[0])" in txt or "sorted(self.instructions.items())" in txt
    r.check(ok, "InstructionMemory.get_representation", f.loc(), "instruction listing is not sorted by address")
    f = m.method("RiscvSimulation", "get_instruction_memory_entries", own=True)
    ok = any(isinstance(n, ast.comprehension) and ast.unparse(n.iter).endswith("instruction_memory.get_representation()") for n in ast.walk(f.node))
    r.check(ok, "RiscvSimulation.get_instruction_memory_entries", f.loc(), "instruction table does not follow get_representation() order")
    r.floor(4)

    r = ctx.rule("R17.width", "stated width = stored width")
    mod = m.module("util.integer_representations")
    for n in WIDTHS:
        g = mod.functions.get(f"get_{n}_bit_representations")
        if g is None:
            raise AnalysisError(f"anchor vanished: get_{n}_bit_representations")
        calls = [c for c in calls_in(g.node) if isinstance(c.func, ast.Name) and c.func.id == "get_n_bit_representations"]
        ok = len(calls) == 1
        if ok:
            kw = {k.arg: k.value for k in calls[0].keywords}
            nv = kw.get("n", calls[0].args[1] if len(calls[0].args) > 1 else None)
            xv = kw.get("number", calls[0].args[0] if calls[0].args else None)
            ok = nv is not None and const_int(nv) == n and xv is not None and ast.unparse(xv) == g.params[0]
        r.check(ok, f"get_{n}_bit_representations", g.loc(), f"get_{n}_bit_representations does not format its argument with n={n}")
    sites = [
        ("RegisterFile", "reg_repr", "get_32_bit_representations", "int(reg)", "registers: list[fixedint.UInt32]"),
        ("ToySimulation", "get_register_representations", "get_16_bit_representations", "int(self.state.accu)", "accu = UInt16"),
        ("ToySimulation", "get_register_representations", "get_12_bit_representations", "int(self.state.program_counter)", "program_counter: UInt12"),
        ("ToySimulation", "get_register_representations", "get_16_bit_representations", "int(self.state.loaded_instruction)", "16-bit encoding (R19.fields)"),
    ]
    for cn, mn, fn, arg, why in sites:
        f = m.method(cn, mn, own=True)
        ok = any(isinstance(c.func, ast.Name) and c.func.id == fn and [ast.unparse(a) for a in c.args] == [arg] for c in calls_in(f.node))
        r.check(ok, f"{cn}.{mn}|{arg}", f.loc(), f"{cn}.{mn} no longer formats `{arg}` with {fn} ({why})")
    # every formatter call in the package is one of the recognised sites (widths cannot drift elsewhere)
    known_fn = {f"get_{n}_bit_representations" for n in WIDTHS} | {"get_n_bit_representations"}
    allowed_callers = {"RegisterFile.reg_repr", "ToySimulation.get_register_representations", "Memory._memory_repr",
                       "get_12_bit_representations", "get_16_bit_representations", "get_32_bit_representations"}
    for f in m.functions.values():
        if ".cli." in f.qname:
            continue
        for c in calls_in(f.node):
            if isinstance(c.func, ast.Name) and c.func.id in known_fn:
                sq = short(f.qname) if f.cls else f.name
                if sq in allowed_callers:
                    r.inst(f"{sq}|{c.func.id}", None)
                else:
                    ctx.notes.append(f"R17.width: formatter call site {sq} ({seg(f, c)}) is not in the table; its width is not decided")
    # declared types of the formatted values
    st = m.cls("ToyArchitecturalState")
    init = m.method(st, "__init__", own=True)
    txt = " ".join(ast.unparse(init.node).split())
    r.check("self.program_counter: UInt12 = UInt12(1)" in txt, "ToyArchitecturalState.program_counter", init.loc(), "TOY pc is not a UInt12")
    r.check("self.accu = UInt16(0)" in txt, "ToyArchitecturalState.accu", init.loc(), "TOY accu is not a UInt16")
    u12 = m.module("util.fixedint_12").assigns.get("UInt12")
    r.check(u12 is not None and " ".join(ast.unparse(u12).split()) in ("fixedint.FixedInt(12, signed=False, mutable=False)",
                                                                     "fixedint.FixedInt(12, signed=False)"),
            "UInt12", "architecture_simulator/util/fixedint_12.py:3", "UInt12 is not a 12-bit unsigned fixedint")
    # memory tables
    mem = m.cls("Memory")
    for name, bits in (("bytewise_repr", 8), ("half_wordwise_repr", 16), ("wordwise_repr", 32), ("double_wordwise_repr", 64)):
        f = m.method(mem, name, own=True)
        rets = [n for n in walk_no_nested(f.node) if isinstance(n, ast.Return)]
        ok = len(rets) == 1 and rets[0].value is not None and ast.unparse(rets[0].value) == f"{f.params[0]}._memory_repr({bits})"
        r.check(ok, f"Memory.{name}", f.loc(), f"Memory.{name} does not render {bits}-bit rows")
    f = m.method("RiscvSimulation", "get_data_memory_entries", own=True)
    r.check(".memory.wordwise_repr()" in ast.unparse(f.node), "RiscvSimulation.get_data_memory_entries|rows", f.loc(), "RISC-V memory table is not word-wise")
    f = m.method("ToySimulation", "get_memory_table_entries", own=True)
    r.check(".memory.half_wordwise_repr()" in ast.unparse(f.node), "ToySimulation.get_memory_table_entries|rows", f.loc(), "TOY memory table is not half-word-wise")
    r.floor(18)

    rows_rule(ctx)
    fmt_rule(ctx)


def rows_rule(ctx: Ctx) -> None:
    """_memory_repr in normal form (loop normalisation + symflow): one row per written address, keyed by the address
    rounded down to the row width, read with the accessor of that width and formatted with that width.  Locals,
    if/elif versus conditional expressions, `continue` versus a nested if do not matter."""
    from ..parsershape import normal_flow
    m = ctx.model
    r = ctx.rule("R17.rows", "_memory_repr: rows from the backing store's keys, aligned, one width throughout (normal form)")
    f = m.method("Memory", "_memory_repr")
    fl = normal_flow(m, f)
    stores = [e for e in fl.effects if e.kind == "store" and isinstance(e.expr.targets[0], ast.Subscript)]  # type: ignore[attr-defined]
    if len(stores) != 1:
        r.check(False, "Memory._memory_repr|read", f.loc(), f"expected one store of a formatted row per address, found {len(stores)}")
        return
    e = stores[0]
    tgt, val = e.expr.targets[0], e.expr.value  # type: ignore[attr-defined]
    key = fl.canon(tgt.slice)
    elems = [f"ELEM1.0({it})" for it in ("P0.memory_file.keys()", "P0.memory_file", "list(P0.memory_file)", "list(P0.memory_file.keys())", "sorted(P0.memory_file)")]
    el = next((x for x in elems if x in key), None)
    r.check(el is not None, "Memory._memory_repr|keys", f.loc(e.node), f"rows are not derived from the addresses actually written (row key: {fl.show(tgt.slice)})")
    if el is None:
        return
    cells = "FloorDiv(P1, P0.memory_file_values_width)"
    aa = f"Sub({el}, Mod({el}, {cells}))"
    r.check(key == aa, "Memory._memory_repr|align", f.loc(e.node),
            f"row address is `{fl.show(tgt.slice)}`, not the written address rounded down to the row width (address - address % (width // cell width))")
    want_word = (f"cases[Eq(16, P1); Eq(32, P1); Eq(8, P1)]{{P0.read_byte(address={aa}) #10; P0.read_doubleword(address={aa}) #1; "
                 f"P0.read_halfword(address={aa}) #2; P0.read_word(address={aa}) #4}}")
    ok = isinstance(val, ast.Call) and isinstance(val.func, ast.Name) and val.func.id == "get_n_bit_representations"
    got_word = got_n = None
    if ok:
        from ..cacheshape import call_args  # noqa: F401
        fn = m.module("util.integer_representations").functions.get("get_n_bit_representations")
        params = fn.params if fn is not None else ["number", "n"]
        a = {p_: v for p_, v in zip(params, val.args)}
        a.update({k.arg: k.value for k in val.keywords})
        num, nn = a.get(params[0]), a.get(params[1])
        got_n = fl.canon(nn) if nn is not None else None
        if isinstance(num, ast.Call) and isinstance(num.func, ast.Name) and num.func.id == "int" and num.args:
            got_word = fl.canon(num.args[0])
    r.check(ok and got_n == "P1", "Memory._memory_repr|format", f.loc(e.node), f"the row value is not formatted with the row width (n = {got_n})")
    r.check(got_word is not None and _same_cases(got_word, want_word), "Memory._memory_repr|reader", f.loc(e.node),
            f"the row value is `{got_word}`; it must be read at the aligned address with read_byte / read_halfword / read_word / "
            "read_doubleword for 8 / 16 / 32 / other row widths")
    # one row per aligned address: the store happens exactly when the row is not there yet
    cond = fl.canon_cond(e.cond)
    r.check("In(" in cond and "LOOP1" in cond, "Memory._memory_repr|read", f.loc(e.node),
            f"the row is not stored exactly once per aligned address (condition: {cond})")
    rets = [fl.canon(x.value) for x in fl.returns]
    r.inst("Memory._memory_repr|returns", rets)
    r.floor(6)


def _same_cases(a: str, b: str) -> bool:
    """Two `cases[...]` prints with the same leaves and tables (the atom order inside [...] is canonical already)."""
    return a == b


def fmt_rule(ctx: Ctx) -> None:
    m = ctx.model
    r = ctx.rule("R17.fmt", "n-bit formatter constants for n in {12,16,32}")
    mod = m.module("util.integer_representations")
    f = mod.functions.get("get_n_bit_representations")
    hx = mod.functions.get("to_hex_str")
    gp = mod.functions.get("groupify_string")
    if None in (f, hx, gp):
        raise AnalysisError("anchor vanished: formatter functions")
    assigns = {n.targets[0].id: n.value for n in f.node.body if isinstance(n, ast.Assign) and isinstance(n.targets[0], ast.Name)}
    num, nn = f.params[0], f.params[1]
    for need in ("unsigned_number", "signed_number", "bin_string", "hex_string"):
        if need not in assigns:
            raise AnalysisError(f"R17.fmt: local `{need}` vanished from get_n_bit_representations")
    hx_assigns = {n.targets[0].id: n.value for n in hx.node.body if isinstance(n, ast.Assign) and isinstance(n.targets[0], ast.Name)}
    for n in WIDTHS:
        fold = Folder(m, mod, None, {nn: Val(n)})
        arms = [assigns["unsigned_number"]]
        while any(isinstance(a, ast.IfExp) for a in arms):  # a conditional reduction must reduce correctly on every arm
            arms = [b for a in arms for b in ((a.body, a.orelse) if isinstance(a, ast.IfExp) else (a,))]
        for arm in arms:
            try:
                u = Evaluator({num: Form.var("x")}, fold).ev(arm)
            except Inconclusive as exc:
                raise AnalysisError(f"R17.fmt: unsigned_number outside the bit-slice domain: {exc}")
            r.check(u == Form.field("x", 0, n), f"n={n}|mask", f.loc(), f"for n={n} the value is reduced to {u.describe()} (`{ast.unparse(arm)}`) "
                    f"instead of its low {n} bits (two's complement for negative and over-wide inputs)")
        sg = assigns["signed_number"]
        ok = False
        if isinstance(sg, ast.IfExp) and isinstance(sg.test, ast.Compare) and len(sg.test.ops) == 1:
            try:
                thr = fold.fold(sg.test.comparators[0])
                op = type(sg.test.ops[0])
                left_ok = ast.unparse(sg.test.left) == "unsigned_number"
                thr_ok = (op is ast.GtE and thr == 2 ** (n - 1)) or (op is ast.Gt and thr == 2 ** (n - 1) - 1)
                lf = linform(sg.body)
                off = None
                if isinstance(sg.body, ast.BinOp) and isinstance(sg.body.op, ast.Sub) and ast.unparse(sg.body.left) == "unsigned_number":
                    off = fold.fold(sg.body.right)
                ok = left_ok and thr_ok and off == 2 ** n and ast.unparse(sg.orelse) == "unsigned_number"
            except Unknown:
                ok = False
        r.check(ok, f"n={n}|sign", f.loc(), f"for n={n} the signed value is not `u - 2^{n} if u >= 2^{n - 1} else u`")
        # binary field width
        try:
            bf = fold.fold(assigns["bin_format"]) if "bin_format" in assigns else None
        except Unknown:
            bf = None
        r.check(bf == "{:0" + str(n) + "b}", f"n={n}|bin-width", f.loc(), f"binary format for n={n} is {bf!r}")
        # hex field width (folded inside to_hex_str with its own parameter names)
        try:
            hf = Folder(m, mod, None, {hx.params[1]: Val(n)}).fold(hx_assigns["hex_format"]) if "hex_format" in hx_assigns else None
        except Unknown:
            hf = None
        r.check(hf == "{:0" + str(n // 4) + "X}", f"n={n}|hex-width", hx.loc(), f"hex format for n={n} is {hf!r}, expected {n // 4} upper-case digits")
    r.check(ast.unparse(assigns["bin_string"]) == "bin_format.format(unsigned_number)", "bin_string", f.loc(), "binary digits are not rendered from the masked value")
    r.check(ast.unparse(assigns["hex_string"]) == f"to_hex_str(unsigned_number, {nn})", "hex_string", f.loc(), "hex digits are not rendered from the masked value at width n")
    rets = [x for x in walk_no_nested(hx.node) if isinstance(x, ast.Return)]
    r.check(len(rets) == 1 and ast.unparse(rets[0].value) == f"hex_format.format({hx.params[0]})", "to_hex_str|return", hx.loc(), "to_hex_str does not format its number")
    rets = [x for x in walk_no_nested(f.node) if isinstance(x, ast.Return)]
    ok = False
    if len(rets) == 1 and isinstance(rets[0].value, ast.Tuple) and len(rets[0].value.elts) == 4:
        e = [" ".join(ast.unparse(x).split()) for x in rets[0].value.elts]
        ok = e == ["groupify_string(string=bin_string, group_size=8)", "str(unsigned_number)",
                   "groupify_string(string=hex_string, group_size=2)", "str(signed_number)"] or \
            e == ["groupify_string(bin_string, 8)", "str(unsigned_number)", "groupify_string(hex_string, 2)", "str(signed_number)"]
    r.check(ok, "result-tuple", f.loc(), "result is not (bin grouped by 8, unsigned, hex grouped by 2, signed)")
    # grouping goes right to left
    gtxt = " ".join(ast.unparse(gp.node).split())
    ok = "reversed_string = string[::-1]" in gtxt and "return grouped_string[::-1]" in gtxt and \
        "reversed_string[i * group_size:(i + 1) * group_size]" in gtxt and "separator.join(" in gtxt
    r.check(ok, "groupify_string", gp.loc(), "digit grouping no longer counts groups from the right")
    r.floor(17)
