"""C18 -- flat memory (structural clauses).

R18.range   memory_file is subscripted only in _read_value/_write_value; on every path the
            optional modulo (under address_overflow) precedes the range check, which
            precedes the cell access; multi-cell accessors go through them only.
R18.le      little-endian composition in the bit-slice domain: _write_multiple stores bits
            [w*i, w*(i+1)) of the value at address+i, _read_multiple places cell i at bit
            w*i (unrolled symbolically for n = 1..8 cells, w = cell width).
R18.acc     per-width accessor table: guard `cell width > B` raises UnsupportedFunctionError,
            cell count B // width, result cast UInt<B>.
R18.cfg     RISC-V data memory: byte cells, 32-bit addresses, overflow on, range [2^14, 2^32);
            TOY: half-word cells, 12-bit addresses, no overflow, range(4096).
R18.err     out-of-range raises MemoryAddressError; unread cells read as zero.
"""
from __future__ import annotations

import ast

from ..bitslice import Evaluator, Form, Inconclusive
from ..common import all_functions, const_int, seg, short
from ..consteval import Folder, Unknown, Val, fold_in
from ..guards import facts_of
from ..linear import linform
from ..model import AnalysisError, walk_no_nested
from ..paths import calls_in, event_exprs, function_paths
from ..report import Ctx

EXPLANATION = (
    "Decides the shape of the byte store: the backing dict is touched at exactly two places, both "
    "behind the (optional) address wrap and the range check on every path, so no access can read "
    "or write outside the valid range or skip the modulo; little-endian composition and "
    "decomposition are evaluated in the bit-slice abstract domain with a symbolic value and "
    "symbolic cells (cell i <-> bits [w*i, w*(i+1)) at address+i) for every cell count in use; the "
    "per-width accessors are checked row by row; the two memory configurations are folded from the "
    "constructor calls. Last-writer-wins over arbitrary access histories is a property of Python "
    "dict semantics plus the above and is not separately decided."
)
ASSUMPTIONS = ["dict assignment overwrites (last writer wins per cell)", "loops over range(n) visit i = 0..n-1 in order"]
TRUSTED = ["CPython ast", "sa.bitslice", "sa.consteval", "sa.paths"]


def run(ctx: Ctx) -> None:
    range_rule(ctx, "R18.range")
    le_rule(ctx)
    acc_rule(ctx)
    cfg_rule(ctx)


def range_rule(ctx: Ctx, rid: str = "R18.range") -> None:
    m = ctx.model
    mem = m.cls("Memory")

    r = ctx.rule(rid, "every cell access is wrapped (optionally) then range-checked, on every path")
    # the range check belongs to the single-cell accessors (after the wrap): a check of an unwrapped multi-cell address elsewhere
    # rejects accesses that wrap around the end of the address space
    for f in all_functions(m):
        for c in calls_in(f.node):
            if isinstance(c.func, ast.Attribute) and c.func.attr == "assert_address_in_range" and not (f.cls is mem and f.name in ("_read_value", "_write_value")):
                r.check(False, f"{short(f.qname)}|assert_address_in_range", f.loc(c), f"{short(f.qname)} range-checks `{seg(f, c.args[0]) if c.args else '?'}` itself: "
                        "only the single-cell accessors check (the wrapped address of) each cell; an extra check of a multi-cell access rejects "
                        "stores/loads that wrap around the end of the address space or reports a different address")
    # the flat memory has one implementation: a subclass that overrides part of the core changes what a load / store does
    CORE = {"_read_value", "_write_value", "_read_multiple", "_write_multiple", "assert_address_in_range", "reset"} | \
        {f"{k}_{w}" for k in ("read", "write") for w in ("byte", "halfword", "word", "doubleword")}
    for k in m.subclasses(mem, strict=True):
        if k.name == "CsrRegisterFile":
            continue  # the CSR register file of the confirmed tree: its own privilege-checked cells, never the data memory (CSR* is out of scope)
        over = sorted(CORE & set(k.methods))
        r.check(not over, f"{k.name}|overrides", k.loc(), f"{k.name} subclasses Memory and overrides {over}: cells of that memory no longer behave as the flat byte store")
    n_sub = 0
    for f in all_functions(m):
        for n in walk_no_nested(f.node):
            if isinstance(n, ast.Subscript) and isinstance(n.value, ast.Attribute) and n.value.attr == "memory_file":
                n_sub += 1
                ok = f.cls is mem and f.name in ("_read_value", "_write_value")
                r.check(ok, f"{short(f.qname)}|memory_file[]", f.loc(n), f"{short(f.qname)} touches memory_file directly: `{seg(f, n)}` "
                        "bypasses the range check")
            if isinstance(n, ast.Call) and isinstance(n.func, ast.Attribute) and isinstance(n.func.value, ast.Attribute) \
                    and n.func.value.attr == "memory_file" and n.func.attr in ("get", "pop", "setdefault", "update", "__setitem__", "__getitem__", "clear"):
                n_sub += n.func.attr != "clear"
                ok = (f.cls is mem and f.name == "reset" and n.func.attr == "clear") or \
                     (f.cls is mem and f.name in ("_read_value", "_write_value") and n.func.attr in ("get", "setdefault", "__getitem__", "__setitem__"))
                r.check(ok, f"{short(f.qname)}|memory_file.{n.func.attr}", f.loc(n), f"{short(f.qname)} uses memory_file.{n.func.attr}(..) outside the checked accessors")
    if n_sub < 2:
        ctx.floor_misses.append("R18.range: cell subscripts vanished")
    from ..parsershape import normal_flow
    L = "P0.address_length"
    WRAPS = {f"Mod(P1, Pow(2, {L}))", f"Mod(P1, LShift(1, {L}))", f"BitAnd(P1, Sub(Pow(2, {L}), 1))", f"BitAnd(P1, Sub(LShift(1, {L}), 1))"}
    KEYS = {f"cases[P0.address_overflow]{{{w} #2; P1 #1}}" for w in WRAPS} | {f"cases[P0.address_overflow]{{P1 #1; {w} #2}}" for w in WRAPS}
    for name in ("_read_value", "_write_value"):
        f = m.method(mem, name)
        fl = normal_flow(m, f)
        effs = [(e.kind, fl.canon(e.expr), fl.canon_cond(e.cond), e) for e in fl.effects]
        checks = [(i, e) for i, (k, s_, c, e) in enumerate(effs) if k == "call" and isinstance(e.expr, ast.Call)
                  and isinstance(e.expr.func, ast.Attribute) and e.expr.func.attr == "assert_address_in_range"]
        if name == "_read_value":
            cells = [(i, e.expr.args[0] if e.expr.args else None, e) for i, (k, s_, c, e) in enumerate(effs) if k == "call"
                     and isinstance(e.expr, ast.Call) and isinstance(e.expr.func, ast.Attribute) and e.expr.func.attr in ("get", "__getitem__", "setdefault")
                     and fl.canon(e.expr.func.value).split("@")[0] == "P0.memory_file"]
        else:
            cells = [(i, e.expr.targets[0].slice, e) for i, (k, s_, c, e) in enumerate(effs) if k == "store"
                     and isinstance(e.expr.targets[0], ast.Subscript) and fl.canon(e.expr.targets[0].value).split("@")[0] == "P0.memory_file"]  # type: ignore[attr-defined]
        key = f"Memory.{name}|access"
        if len(cells) != 1:
            r.check(False, key, f.loc(), f"Memory.{name}: expected exactly one cell access (memory_file[k] / memory_file.get(k, ..)), found {len(cells)}")
            continue
        ci, kexpr, ce = cells[0]
        kcanon = fl.canon(kexpr)
        r.check(kcanon in KEYS, f"Memory.{name}|wrap", f.loc(ce.node),
                f"Memory.{name}: the cell key is `{fl.show(kexpr)}`; it must be `address % 2**address_length` under address_overflow and the plain address otherwise")
        ok = len(checks) >= 1 and any(i < ci and fl.canon_cond(e.cond) == "TRUE" and e.expr.args == [] and
                                      [fl.canon(k.value) for k in e.expr.keywords] == [kcanon] or
                                      (i < ci and fl.canon_cond(e.cond) == "TRUE" and [fl.canon(a) for a in e.expr.args] == [kcanon])
                                      for i, e in checks)
        r.check(ok and fl.canon_cond(ce.cond) == "TRUE", f"Memory.{name}|checked", f.loc(ce.node),
                f"Memory.{name}: a path reaches memory_file[..] without [wrap under address_overflow ->] "
                "assert_address_in_range(<that same key>) in that order")
        if name == "_read_value":
            okd = isinstance(ce.expr, ast.Call) and ce.expr.func.attr in ("get", "setdefault") and len(ce.expr.args) == 2 \
                and fl.canon(ce.expr.args[1]) == "P0.class_of_memory_file_values(0)" and len(fl.returns) == 1 \
                and fl.canon(fl.returns[0].value) == fl.canon(ce.expr)
            r.check(okd, "Memory._read_value|default-zero", f.loc(ce.node), "a never-written cell does not read as zero "
                    "(the cell value must be memory_file.get(key, class_of_memory_file_values(0)) or the try/except KeyError form of it)")
    ar = m.method(mem, "assert_address_in_range")
    from ..flowspec import truth_function
    fla = normal_flow(m, ar)
    raises = [(fla.canon_cond(e.cond), fla.canon(e.expr)) for e in fla.effects if e.kind == "raise"]
    ok = len(raises) == 1 and raises[0][0] == "not(In(P1, P0.address_range))" and raises[0][1].startswith("MemoryAddressError(")
    r.check(ok, "Memory.assert_address_in_range", ar.loc(),
            f"the range check is no longer `address not in address_range -> raise MemoryAddressError` (raises: {raises})")
    r.floor(6)


def le_rule(ctx: Ctx, rid: str = "R18.le") -> None:
    """Little-endian (de)composition by abstract interpretation (sa.absrun over the bit-slice domain):
    the multi-cell accessors are *run* on a symbolic value / symbolic cells for 1, 2, 4 and 8 cells of
    8 and 16 bits; what matters is which bits reach which address, not how the loop is written."""
    from ..absrun import AbsRun
    m = ctx.model
    mem = m.cls("Memory")
    r = ctx.rule(rid, "little-endian (de)composition, abstract interpretation in the bit-slice domain")
    fw = m.method(mem, "_write_multiple")
    fr = m.method(mem, "_read_multiple")
    for w in (8, 16):
        for n in (1, 2, 4, 8):
            # ---- write: cell k at address+k receives bits [w*k, w*(k+1)) of the value
            s0, addr, n_, val = fw.params[:4]
            writes: list = []

            def on_w(c: ast.Call, ev, _s0=s0, _w=w, _writes=writes):
                fn = ast.unparse(c.func)
                if fn == f"{_s0}._write_value":
                    wv = m.method(mem, "_write_value")
                    a = {p_: v for p_, v in zip(wv.params[1:], c.args)}
                    a.update({k.arg: k.value for k in c.keywords if k.arg})
                    if set(a) == set(wv.params[1:3]):
                        _writes.append((ev.ev(a[wv.params[1]]), ev.ev(a[wv.params[2]]), c))
                        return Form.k(0)
                if fn == f"{_s0}.class_of_memory_file_values" and len(c.args) == 1:
                    return ev.ev(c.args[0]).and_mask((1 << _w) - 1)  # the cell class keeps w bits
                return None

            key = f"_write_multiple|w={w},n={n}"
            try:
                AbsRun(m, fw, {addr: Form.var("a"), n_: Form.k(n), val: Form.var("v")}, {f"{s0}.memory_file_values_width": w}, on_w).run()
                got = {repr((a - Form.var("a")).const if (a - Form.var("a")).is_const() else a.describe()): cell for a, cell, _ in writes}
                want = {repr(k): Form.field("v", w * k, w * (k + 1)) for k in range(n)}
                ok = len(writes) == n and set(got) == set(want) and all(got[k] == want[k] for k in want)
                bad = next((f"address+{k}: {got[k].describe()}" for k in sorted(got) if k not in want or got[k] != want[k]), f"{len(writes)} cell writes")
                r.check(ok, key, fw.loc(writes[0][2]) if writes else fw.loc(),
                        f"with {w}-bit cells and {n} cells, _write_multiple does not store bits [{w}*i, {w}*(i+1)) of the value at address+i "
                        f"(little endian): {bad}")
            except Inconclusive as exc:
                raise AnalysisError(f"R18.le: _write_multiple outside the bit-slice domain: {exc}")
            # ---- read: the cell read at address+k lands at bit w*k
            s0, addr, n_ = fr.params[:3]
            reads: list = []

            def on_r(c: ast.Call, ev, _s0=s0, _w=w, _reads=reads):
                fn = ast.unparse(c.func)
                if fn == f"{_s0}._read_value" and len(c.args) + len(c.keywords) == 1:
                    a = ev.ev((list(c.args) + [k.value for k in c.keywords])[0]) - Form.var("a")
                    if not a.is_const():
                        raise Inconclusive("cell address is not address + constant")
                    _reads.append((a.const, c))
                    return Form.field(f"c{a.const}", 0, _w)
                return None

            key = f"_read_multiple|w={w},n={n}"
            try:
                res = AbsRun(m, fr, {addr: Form.var("a"), n_: Form.k(n)}, {f"{s0}.memory_file_values_width": w}, on_r).run()
                want_f = Form.k(0)
                for k in range(n):
                    want_f = want_f + Form.field(f"c{k}", 0, w).lshift(w * k)
                ok = res is not None and res == want_f and sorted(a for a, _ in reads) == list(range(n))
                r.check(ok, key, fr.loc(reads[0][1]) if reads else fr.loc(),
                        f"with {w}-bit cells and {n} cells, _read_multiple returns {res.describe() if res is not None else None}; "
                        f"little endian requires cell i (read at address+i) at bit {w}*i")
            except Inconclusive as exc:
                if "overlapping" in str(exc):
                    r.check(False, key, fr.loc(), f"_read_multiple ORs cells onto overlapping bit positions ({exc})")
                else:
                    raise AnalysisError(f"R18.le: _read_multiple outside the bit-slice domain: {exc}")
    r.floor(16)


def acc_rule(ctx: Ctx, rid: str = "R18.acc") -> None:
    m = ctx.model
    mem = m.cls("Memory")
    r = ctx.rule(rid, "per-width accessor table")
    from ..flowspec import signature

    def acc_sig(sig):
        # the text handed to UnsupportedFunctionError is not part of the rule: only that it is raised, and when
        return sig[0], tuple((k, t.split("(")[0] if k == "raise" else t, c) for k, t, c in sig[1])

    for kind in ("read", "write"):
        for name, bits in (("byte", 8), ("halfword", 16), ("word", 32), ("doubleword", 64)):
            f = m.method(mem, f"{kind}_{name}", own=True)
            ps = f.params
            head = f"def {kind}_{name}({', '.join(ps)}):\n    if {ps[0]}.memory_file_values_width > {bits}:\n        raise UnsupportedFunctionError('x', {ps[0]}.addressing_type.name)\n"
            counts = ["1", f"{bits} // {ps[0]}.memory_file_values_width"] if bits == 8 else [f"{bits} // {ps[0]}.memory_file_values_width"]
            refs = []
            for count in counts:
                if kind == "read":
                    refs.append(head + f"    return UInt{bits}({ps[0]}._read_multiple({ps[1]}, {count}))\n")
                else:
                    refs.append(head + f"    {ps[0]}._write_multiple({ps[1]}, {count}, int({ps[2]}))\n")
            got = acc_sig(signature(m, f))
            ok = any(acc_sig(signature(m, f, ref)) == got for ref in refs)
            r.check(ok, f"Memory.{kind}_{name}", f.loc(), f"Memory.{kind}_{name} is no longer: reject cells wider than {bits} bits, "
                    f"then {'compose' if kind == 'read' else 'decompose'} {counts[-1]} cell(s)" + (f" into a UInt{bits}" if kind == "read" else "")
                    + f" (recovered: returns {list(got[0])}, effects {[e[1] for e in got[1]]})")
    r.floor(8)


def cfg_rule(ctx: Ctx) -> None:
    m = ctx.model
    mem = m.cls("Memory")
    r = ctx.rule("R18.cfg", "memory configurations")
    from ..cacheshape import call_args, data_memory_constructions
    st, sfl, calls = data_memory_constructions(m)
    if not calls:
        raise AnalysisError("R18.cfg: no Memory(..) construction reaches self.memory of the RISC-V state")
    for i, c in enumerate(calls):
        ca = call_args(m, c, "Memory") or {}
        try:
            a = [ast.unparse(ca["addressing_type"]), fold_in(m, st.module, ca["address_length"]),
                 fold_in(m, st.module, ca["address_overflow"]) if "address_overflow" in ca else False,
                 fold_in(m, st.module, ca["address_range"]) if "address_range" in ca else None]
        except (Unknown, KeyError) as exc:
            raise AnalysisError(f"R18.cfg: Memory(..) arguments do not fold: {exc}")
        rng = ca.get("address_range")
        lo = rng.args[0] if isinstance(rng, ast.Call) and rng.args else None
        lo_ok = lo is not None and " ".join(ast.unparse(lo).split()) == "Settings().get()['memory_address_min_bytes']" \
            and " ".join(ast.unparse(ca["address_length"]).split()) == "Settings().get()['memory_address_length']"
        if not lo_ok:
            r.viol(f"riscv-memory-{i}|settings-keys", st.loc(), "the data memory's bounds are not taken from the settings "
                   "memory_address_min_bytes / memory_address_length (they only coincide with other settings by default): " + sfl.show(c))
        ok = a == ["AddressingType.BYTE", 32, True, range(2 ** 14, 2 ** 32)]
        r.check(ok, f"riscv-memory-{i}", st.loc(), f"RISC-V data memory is configured as {a}; documented: byte cells, 32-bit addresses, "
                "wrap-around on, valid range [2^14, 2^32)")
    from ..parsershape import normal_flow
    ts = m.method("ToyArchitecturalState", "__init__")
    tfl = normal_flow(m, ts)
    tmem = [e.expr.value for e in tfl.effects if e.kind == "store" and tfl.canon(e.expr.targets[0]) == "P0.memory"]  # type: ignore[attr-defined]
    ok = False
    if len(tmem) == 1 and isinstance(tmem[0], ast.Call) and m.resolve_class(ts.module, tmem[0].func) is mem:
        ca = call_args(m, tmem[0], "Memory") or {}
        rng = ca.get("address_range")
        try:
            # the range with the conditional parts resolved for a given size (truthy) and for the default (falsy / None)
            size = ast.Name(id=ts.params[1], ctx=ast.Load())
            pr_ = tfl.cprinter
            rng_given = pr_.resolve_under(rng, pr_._bool(size)) if rng is not None else None
            rng_dflt = pr_.resolve_under(rng, pr_._bool(size, False)) if rng is not None else None
            dflt = fold_in(m, ts.module, rng_dflt) if rng_dflt is not None and not any(isinstance(x, ast.IfExp) for x in ast.walk(rng_dflt)) else None
            ok = ast.unparse(ca.get("addressing_type", ast.Constant(value=None))) == "AddressingType.HALF_WORD" \
                and const_int(ca.get("address_length", ast.Constant(value=None))) == 12 \
                and ("address_overflow" not in ca or (isinstance(ca["address_overflow"], ast.Constant) and ca["address_overflow"].value is False)) \
                and dflt == range(4096) and rng_given is not None and tfl.canon(rng_given) == "range(P1)"
        except Unknown:
            ok = False
    r.check(ok, "toy-memory", ts.loc(), "TOY memory is not Memory(HALF_WORD, 12, no overflow, range(4096) by default)")
    mi = m.method(mem, "__init__", own=True)
    a = mi.node.args
    dflt = {p.arg: d for p, d in zip((a.posonlyargs + a.args)[-len(a.defaults):], a.defaults)}
    r.check(isinstance(dflt.get("address_overflow"), ast.Constant) and dflt["address_overflow"].value is False, "Memory.address_overflow-default", mi.loc(),
            "address_overflow no longer defaults to False")
    at = m.cls("AddressingType")
    want = {"BYTE": "UInt8", "HALF_WORD": "UInt16", "WORD": "UInt32", "DOUBLE_WORD": "UInt64"}
    got = {k: ast.unparse(v) for k, v in at.assigns.items()}
    r.check(got == want, "AddressingType", at.loc(), f"AddressingType maps {got}")
    r.floor(4)
