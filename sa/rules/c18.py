"""C18 -- flat memory (structural clauses).

R18.range   memory_file is subscripted only in _read_value/_write_value; on every path the
            optional modulo (under address_overflow) precedes the range check, which
            precedes the cell access; multi-cell accessors go through them only.
R18.le      little-endian composition in the bit-slice domain: _write_multiple stores bits
            [w*i, w*(i+1)) of the value at address+i, _read_multiple places cell i at bit
            w*i (unrolled symbolically for n = 1..8 cells, w = cell width).
R18.acc     per-width accessor table: guard `cell width > B` raises UnsupportedFunctionError,
            cell count B // width, result cast UInt<B>.
R18.cfg     RISC-V data memory: byte cells, 32-bit addresses, overflow on, range [2^14, 2^32);
            TOY: half-word cells, 12-bit addresses, no overflow, range(4096).
R18.err     out-of-range raises MemoryAddressError; unread cells read as zero.
"""
from __future__ import annotations

import ast

from ..bitslice import Evaluator, Form, Inconclusive
from ..common import all_functions, const_int, seg, short
from ..consteval import Folder, Unknown, Val, fold_in
from ..guards import facts_of
from ..linear import linform
from ..model import AnalysisError, walk_no_nested
from ..paths import calls_in, event_exprs, function_paths
from ..report import Ctx

EXPLANATION = (
    "Decides the shape of the byte store: the backing dict is touched at exactly two places, both "
    "behind the (optional) address wrap and the range check on every path, so no access can read "
    "or write outside the valid range or skip the modulo; little-endian composition and "
    "decomposition are evaluated in the bit-slice abstract domain with a symbolic value and "
    "symbolic cells (cell i <-> bits [w*i, w*(i+1)) at address+i) for every cell count in use; the "
    "per-width accessors are checked row by row; the two memory configurations are folded from the "
    "constructor calls. Last-writer-wins over arbitrary access histories is a property of Python "
    "dict semantics plus the above and is not separately decided."
)
ASSUMPTIONS = ["dict assignment overwrites (last writer wins per cell)", "loops over range(n) visit i = 0..n-1 in order"]
TRUSTED = ["CPython ast", "sa.bitslice", "sa.consteval", "sa.paths"]


def run(ctx: Ctx) -> None:
    m = ctx.model
    mem = m.cls("Memory")

    r = ctx.rule("R18.range", "every cell access is wrapped (optionally) then range-checked, on every path")
    n_sub = 0
    for f in all_functions(m):
        for n in walk_no_nested(f.node):
            if isinstance(n, ast.Subscript) and isinstance(n.value, ast.Attribute) and n.value.attr == "memory_file":
                n_sub += 1
                ok = f.cls is mem and f.name in ("_read_value", "_write_value")
                r.check(ok, f"{short(f.qname)}|memory_file[]", f.loc(n), f"{short(f.qname)} touches memory_file directly: `{seg(f, n)}` "
                        "bypasses the range check")
            if isinstance(n, ast.Call) and isinstance(n.func, ast.Attribute) and isinstance(n.func.value, ast.Attribute) \
                    and n.func.value.attr == "memory_file" and n.func.attr in ("get", "pop", "setdefault", "update", "__setitem__", "__getitem__", "clear"):
                ok = (f.cls is mem and f.name == "reset" and n.func.attr == "clear") or \
                     (f.cls is mem and f.name in ("_read_value", "_write_value") and n.func.attr in ("get", "setdefault", "__getitem__", "__setitem__"))
                r.check(ok, f"{short(f.qname)}|memory_file.{n.func.attr}", f.loc(n), f"{short(f.qname)} uses memory_file.{n.func.attr}(..) outside the checked accessors")
    if n_sub < 2:
        ctx.floor_misses.append("R18.range: cell subscripts vanished")
    for name in ("_read_value", "_write_value"):
        f = m.method(mem, name, own=True)
        s0 = f.params[0]
        a = f.params[1]
        for p in function_paths(f.node):
            facts: set = set()
            wrapped = checked = False
            wrap_after_check = False
            for e in p.events:
                if e.kind == "test":
                    facts |= facts_of(e.node, bool(e.pol))
                if e.kind == "stmt" and isinstance(e.node, ast.Assign) and ast.unparse(e.node.targets[0]) == a:
                    v = e.node.value
                    okw = isinstance(v, ast.BinOp) and isinstance(v.op, ast.Mod) and ast.unparse(v.left) == a and \
                        " ".join(ast.unparse(v.right).split()) in (f"2 ** {s0}.address_length", f"(2 ** {s0}.address_length)")
                    if okw:
                        wrapped = True
                        if checked:
                            wrap_after_check = True
                    else:
                        r.viol(f"Memory.{name}|address-rebound", f.loc(e.node), f"address is rebound to `{ast.unparse(v)}` (only `address % 2**address_length` is expected)")
                for x in event_exprs(e):
                    for c in calls_in(x):
                        if isinstance(c.func, ast.Attribute) and c.func.attr == "assert_address_in_range" and [ast.unparse(z) for z in c.args] == [a]:
                            checked = True
                    for sub in ast.walk(x):
                        is_cell = isinstance(sub, ast.Subscript) and isinstance(sub.value, ast.Attribute) and sub.value.attr == "memory_file"
                        if isinstance(sub, ast.Call) and isinstance(sub.func, ast.Attribute) and isinstance(sub.func.value, ast.Attribute) \
                                and sub.func.value.attr == "memory_file" and sub.args:
                            is_cell = True
                            sub = ast.Subscript(value=sub.func.value, slice=sub.args[0], ctx=ast.Load(), lineno=sub.lineno, col_offset=sub.col_offset,
                                                end_lineno=sub.end_lineno, end_col_offset=sub.end_col_offset)
                        if is_cell:
                            key = f"Memory.{name}|{'overflow' if (f'{s0}.address_overflow', True) in facts else 'no-overflow'}"
                            ok = checked and not wrap_after_check and ast.unparse(sub.slice) == a
                            if (f"{s0}.address_overflow", True) in facts:
                                ok = ok and wrapped
                            elif (f"{s0}.address_overflow", False) in facts:
                                ok = ok and not wrapped
                            else:
                                ok = False  # the wrap decision is not taken from address_overflow
                            r.check(ok, key, f.loc(sub), f"Memory.{name}: a path reaches memory_file[..] without "
                                    "[wrap under address_overflow ->] assert_address_in_range(address) in that order", None, p.labels())
    ar = m.method(mem, "assert_address_in_range", own=True)
    txt = " ".join(ast.unparse(ar.node).split())
    r.check(f"if not {ar.params[1]} in {ar.params[0]}.address_range: raise MemoryAddressError(" in txt or
            f"if {ar.params[1]} not in {ar.params[0]}.address_range: raise MemoryAddressError(" in txt, "Memory.assert_address_in_range", ar.loc(),
            "the range check is no longer `address not in address_range -> raise MemoryAddressError`")
    rv = m.method(mem, "_read_value", own=True)
    txt = " ".join(ast.unparse(rv.node).split())
    r.check("except KeyError: value = self.class_of_memory_file_values(0)" in txt, "Memory._read_value|default-zero", rv.loc(),
            "a never-written cell does not read as zero")
    r.floor(6)

    le_rule(ctx)
    acc_rule(ctx)
    cfg_rule(ctx)


def le_rule(ctx: Ctx) -> None:
    m = ctx.model
    mem = m.cls("Memory")
    r = ctx.rule("R18.le", "little-endian (de)composition, bit-slice domain")
    # ---- write
    f = m.method(mem, "_write_multiple", own=True)
    s0, addr, n_, val = f.params[0], f.params[1], f.params[2], f.params[3]
    loop = next((x for x in f.node.body if isinstance(x, ast.For)), None)
    if loop is None or ast.unparse(loop.iter) != f"range({n_})" or not isinstance(loop.target, ast.Name):
        raise AnalysisError("R18.le: _write_multiple loop shape not recognised")
    i = loop.target.id
    call = None
    shift = None
    for st in loop.body:
        if isinstance(st, ast.Expr) and isinstance(st.value, ast.Call) and ast.unparse(st.value.func) == f"{s0}._write_value":
            call = st.value
        if isinstance(st, ast.Assign) and ast.unparse(st.targets[0]) == val:
            shift = st.value
        if isinstance(st, ast.AugAssign) and ast.unparse(st.target) == val and isinstance(st.op, ast.RShift):
            shift = ast.BinOp(left=ast.Name(id=val, ctx=ast.Load()), op=ast.RShift(), right=st.value)
    if call is None or shift is None or len(call.args) != 2:
        raise AnalysisError("R18.le: _write_multiple body shape not recognised")
    r.check(linform(call.args[0]) == {addr: 1, i: 1}, "_write_multiple|address", f.loc(call), f"cell i is not written at address + i: `{seg(f, call.args[0])}`")
    cell_expr = call.args[1]
    if isinstance(cell_expr, ast.Call) and ast.unparse(cell_expr.func) == f"{s0}.class_of_memory_file_values" and len(cell_expr.args) == 1:
        cell_expr = cell_expr.args[0]
    order_ok = loop.body.index(next(st for st in loop.body if isinstance(st, ast.Expr) and st.value is call)) < \
        loop.body.index(next(st for st in loop.body if (isinstance(st, ast.Assign) and ast.unparse(st.targets[0]) == val)
                             or (isinstance(st, ast.AugAssign) and ast.unparse(st.target) == val)))
    for w in (8, 16):
        fold = Folder(m, f.module, None, {})
        ev_env = {f"{s0}.memory_file_values_width": Form.k(w)}

        class F2(Folder):
            def fold(self2, e):  # noqa: N805
                if ast.unparse(e) == f"{s0}.memory_file_values_width":
                    return w
                return Folder.fold(self2, e)

        fold2 = F2(m, f.module, None, {})
        cur = Form.var("v")
        ok = order_ok
        bad = None
        try:
            for k in range(8):
                cell = Evaluator({val: cur}, fold2).ev(cell_expr)
                if cell != Form.field("v", w * k, w * (k + 1)):
                    ok = False
                    bad = (k, cell.describe())
                    break
                cur = Evaluator({val: cur}, fold2).ev(shift)
        except Inconclusive as exc:
            raise AnalysisError(f"R18.le: _write_multiple outside the bit-slice domain: {exc}")
        r.check(ok, f"_write_multiple|w={w}", f.loc(loop), f"with {w}-bit cells, cell {bad[0] if bad else '?'} receives "
                f"{bad[1] if bad else 'the value after the shift'} instead of bits [{w}*i, {w}*(i+1)) (little endian)")
    # ---- read
    f = m.method(mem, "_read_multiple", own=True)
    s0, addr, n_ = f.params[0], f.params[1], f.params[2]
    loop = next((x for x in f.node.body if isinstance(x, ast.For)), None)
    if loop is None or ast.unparse(loop.iter) != f"range({n_})" or len(loop.body) != 1 or not isinstance(loop.body[0], ast.Assign):
        raise AnalysisError("R18.le: _read_multiple loop shape not recognised")
    i = loop.target.id  # type: ignore[attr-defined]
    st = loop.body[0]
    acc = ast.unparse(st.targets[0])
    init = next((x for x in f.node.body if isinstance(x, ast.Assign) and ast.unparse(x.targets[0]) == acc), None)
    r.check(init is not None and const_int(init.value) == 0, "_read_multiple|init", f.loc(), "accumulator does not start at 0")
    rd = [c for c in calls_in(st) if ast.unparse(c.func) == f"{s0}._read_value"]
    r.check(len(rd) == 1 and linform(rd[0].args[0]) == {addr: 1, i: 1}, "_read_multiple|address", f.loc(st), "cell i is not read from address + i")
    for w in (8, 16):
        class F3(Folder):
            def fold(self2, e):  # noqa: N805
                t = ast.unparse(e)
                if t == f"{s0}.memory_file_values_width":
                    return w
                if t == i:
                    return self2.extra["__i"]
                return Folder.fold(self2, e)

        cur = Form.k(0)
        ok = True
        try:
            for k in range(8):
                fo = F3(m, f.module, None, {"__i": k})
                env = {acc: cur}
                if rd:
                    env[f"int({ast.unparse(rd[0])})"] = Form.field(f"c{k}", 0, w)
                    env[ast.unparse(rd[0])] = Form.field(f"c{k}", 0, w)
                cur = Evaluator(env, fo).ev(st.value)
            want = Form.k(0)
            for k in range(8):
                want = want + Form.field(f"c{k}", 0, w).lshift(w * k)
            ok = cur == want
        except Inconclusive as exc:
            if "overlapping" in str(exc):
                ok = False  # cells are OR-ed onto overlapping bit positions: certainly not a placement
            else:
                raise AnalysisError(f"R18.le: _read_multiple outside the bit-slice domain: {exc}")
        r.check(ok, f"_read_multiple|w={w}", f.loc(loop), f"with {w}-bit cells the composed value is {cur.describe()[:120]}, "
                "expected cell i at bit w*i (little endian)")
    rets = [x for x in walk_no_nested(f.node) if isinstance(x, ast.Return)]
    r.check(len(rets) == 1 and ast.unparse(rets[0].value) == acc, "_read_multiple|return", f.loc(), "composed value is not returned")
    r.floor(8)


def acc_rule(ctx: Ctx) -> None:
    m = ctx.model
    mem = m.cls("Memory")
    r = ctx.rule("R18.acc", "per-width accessor table")
    for kind in ("read", "write"):
        for name, bits in (("byte", 8), ("halfword", 16), ("word", 32), ("doubleword", 64)):
            f = m.method(mem, f"{kind}_{name}", own=True)
            s0 = f.params[0]
            txt = " ".join(ast.unparse(f.node).split())
            guard = f"if {s0}.memory_file_values_width > {bits}: raise UnsupportedFunctionError(" in txt
            count = "1" if bits == 8 else f"{bits} // {s0}.memory_file_values_width"
            if kind == "read":
                body = f"return UInt{bits}({s0}._read_multiple({f.params[1]}, {count}))" in txt
            else:
                body = f"{s0}._write_multiple({f.params[1]}, {count}, int({f.params[2]}))" in txt
            r.check(guard and body, f"Memory.{kind}_{name}", f.loc(), f"Memory.{kind}_{name} is no longer: reject cells wider than {bits} bits, "
                    f"then {'compose' if kind == 'read' else 'decompose'} {count} cell(s)" + (f" into a UInt{bits}" if kind == "read" else ""))
    r.floor(8)


def cfg_rule(ctx: Ctx) -> None:
    m = ctx.model
    mem = m.cls("Memory")
    r = ctx.rule("R18.cfg", "memory configurations")
    st = m.method("RiscvArchitecturalState", "__init__", own=True)
    calls = [c for c in calls_in(st.node) if m.resolve_class(st.module, c.func) is mem]
    if len(calls) != 2:
        raise AnalysisError("R18.cfg: the two Memory(..) constructions vanished")
    try:
        alen = fold_in(m, st.module, next(n.value for n in walk_no_nested(st.node) if isinstance(n, (ast.Assign, ast.AnnAssign))
                                         and ast.unparse(n.targets[0] if isinstance(n, ast.Assign) else n.target) == "address_length"))
    except (StopIteration, Unknown) as exc:
        raise AnalysisError(f"R18.cfg: address_length does not fold: {exc}")
    for i, c in enumerate(calls):
        try:
            a = [ast.unparse(c.args[0]), fold_in(m, st.module, c.args[1], extra={"address_length": Val(alen)}),
                 fold_in(m, st.module, c.args[2]), fold_in(m, st.module, c.args[3], extra={"address_length": Val(alen)})]
        except (Unknown, IndexError) as exc:
            raise AnalysisError(f"R18.cfg: Memory(..) arguments do not fold: {exc}")
        lo = c.args[3].args[0] if isinstance(c.args[3], ast.Call) and c.args[3].args else None
        lo_ok = lo is not None and " ".join(ast.unparse(lo).split()) == "Settings().get()['memory_address_min_bytes']"
        al = next((n.value for n in walk_no_nested(st.node) if isinstance(n, (ast.Assign, ast.AnnAssign))
                   and ast.unparse(n.targets[0] if isinstance(n, ast.Assign) else n.target) == "address_length"), None)
        lo_ok = lo_ok and al is not None and " ".join(ast.unparse(al).split()) == "Settings().get()['memory_address_length']"
        if not lo_ok:
            r.viol(f"riscv-memory-{i}|settings-keys", st.loc(c), "the data memory's bounds are not taken from the settings "
                   "memory_address_min_bytes / memory_address_length (they only coincide with other settings by default)")
        ok = a == ["AddressingType.BYTE", 32, True, range(2 ** 14, 2 ** 32)]
        r.check(ok, f"riscv-memory-{i}", st.loc(c), f"RISC-V data memory is configured as {a}; documented: byte cells, 32-bit addresses, "
                "wrap-around on, valid range [2^14, 2^32)")
    ts = m.method("ToyArchitecturalState", "__init__", own=True)
    calls = [c for c in calls_in(ts.node) if m.resolve_class(ts.module, c.func) is mem]
    ok = False
    if len(calls) == 1:
        c = calls[0]
        kw = {k.arg: k.value for k in c.keywords}
        try:
            rng = kw.get("address_range")
            dflt = fold_in(m, ts.module, rng.orelse) if isinstance(rng, ast.IfExp) else None
            ok = ast.unparse(c.args[0]) == "AddressingType.HALF_WORD" and const_int(c.args[1]) == 12 and "address_overflow" not in kw \
                and len(c.args) == 2 and dflt == range(4096) and isinstance(rng, ast.IfExp) and ast.unparse(rng.body) == "range(unified_memory_size)"
        except Unknown:
            ok = False
    r.check(ok, "toy-memory", ts.loc(), "TOY memory is not Memory(HALF_WORD, 12, no overflow, range(4096) by default)")
    mi = m.method(mem, "__init__", own=True)
    a = mi.node.args
    dflt = {p.arg: d for p, d in zip((a.posonlyargs + a.args)[-len(a.defaults):], a.defaults)}
    r.check(isinstance(dflt.get("address_overflow"), ast.Constant) and dflt["address_overflow"].value is False, "Memory.address_overflow-default", mi.loc(),
            "address_overflow no longer defaults to False")
    at = m.cls("AddressingType")
    want = {"BYTE": "UInt8", "HALF_WORD": "UInt16", "WORD": "UInt32", "DOUBLE_WORD": "UInt64"}
    got = {k: ast.unparse(v) for k, v in at.assigns.items()}
    r.check(got == want, "AddressingType", at.loc(), f"AddressingType maps {got}")
    r.floor(5)
