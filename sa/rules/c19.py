"""C19 -- TOY encoding and assembler (structural clauses).

R19.tab     five tables, one opcode assignment: constructor opcode/mnemonic constants,
            the decode chain of from_integer (total: ends in an else), instruction_map
            keys, the parser's two mnemonic lists, the micro-program table.
R19.fields  4 + 12 = 16: constructor field reductions, to_integer placement and the
            slices from_integer / op_code_value / address_section_value extract agree
            (bit-slice domain).
R19.asm     instruction i is written at address i, max_pc = len-1; the label pass counts
            exactly the lines with a mnemonic; data grows downward from the top address,
            elements ascending; both overflow checks raise MemorySizeException.
"""
from __future__ import annotations

import ast
from typing import Optional

from ..bitslice import Evaluator, Form, Inconclusive
from ..common import const_int, seg, short
from ..consteval import Unknown, fold_in
from ..linear import linform
from ..model import AnalysisError, ClassInfo, walk_no_nested
from ..paths import calls_in
from ..report import Ctx

EXPLANATION = (
    "Decides every row of the TOY encode/decode tables and the field arithmetic symbolically: the "
    "13 constructor opcode constants, the from_integer chain (shown total), the mnemonic map, the "
    "parser's mnemonic lists and the micro-program table must describe one assignment; opcode and "
    "address fields are evaluated in the bit-slice domain and must occupy bits [12,16) and [0,12) "
    "in both directions -- which gives decode(encode(i)) == i for all instructions and a total "
    "decode over all 2^16 words without enumerating them. The assembler's placement rules are "
    "checked as shapes (enumerate => address i, max_pc, downward data). Label and variable "
    "addresses by value for arbitrary programs are not decided."
)
ASSUMPTIONS = ["ToyInstruction.__eq__ compares opcode (and address for address-type instructions)"]
TRUSTED = ["CPython ast", "sa.consteval", "sa.bitslice"]


def ctor_kwargs(ctx: Ctx, c: ClassInfo) -> dict[str, ast.AST]:
    """keyword arguments of the super().__init__(..) call in c.__init__ (own)."""
    init = c.methods.get("__init__")
    if init is None:
        return {}
    for call in calls_in(init.node):
        f = call.func
        if isinstance(f, ast.Attribute) and f.attr == "__init__" and isinstance(f.value, ast.Call) \
                and isinstance(f.value.func, ast.Name) and f.value.func.id == "super":
            return {k.arg: k.value for k in call.keywords if k.arg}
    return {}


def toy_table(ctx: Ctx) -> dict:
    m = ctx.model
    mod = m.module("isa.toy.toy_instructions")
    if "instruction_map" not in mod.assigns:
        raise AnalysisError("anchor vanished: TOY instruction_map")
    try:
        imap = fold_in(m, mod, mod.assigns["instruction_map"])
    except Unknown as exc:
        raise AnalysisError(f"TOY instruction_map does not fold: {exc}")
    rows = {}
    for key, c in imap.items():
        if not isinstance(c, ClassInfo):
            raise AnalysisError(f"TOY instruction_map[{key!r}] is not a class")
        kw = ctor_kwargs(ctx, c)
        rows[key] = {"cls": c, "opcode": const_int(kw["opcode"]) if "opcode" in kw else None,
                     "mnemonic": kw["mnemonic"].value if "mnemonic" in kw and isinstance(kw["mnemonic"], ast.Constant) else None}
    return {"module": mod, "rows": rows}


from ..typesys import class_sequence as _class_sequence  # noqa: E402


def decode_chain(ctx: Ctx) -> tuple[dict, Optional[ClassInfo], bool]:
    """What ToyInstruction.from_integer constructs for each of the 16 opcodes.

    The decoder is evaluated by sa.absrun once per opcode k: the word is k*2**12 + a with a symbolic 12-bit
    address field a, so `opcode` folds to the constant k, an if/elif chain resolves, and a table lookup
    `table[opcode](address)` indexes a class sequence folded from the module.  Returns ({k: (class, call)} for the
    opcodes that do not take the default, default class, total?) in the shape the callers already use: the default is
    the class shared by the opcodes without a constructor of their own."""
    from ..absrun import AbsRun
    from ..bitslice import Form, Inconclusive
    m = ctx.model
    f = m.method("ToyInstruction", "from_integer")
    word = f.params[-1]
    got: dict = {}
    for k in range(16):
        seen: list = []

        def on_call(c: ast.Call, ev, _seen=seen):
            fn = ev.resolve_alias(c.func) if hasattr(ev, "resolve_alias") else c.func
            cls = None
            if isinstance(fn, ast.Name):
                if fn.id == "len" and len(c.args) == 1:
                    seq = _class_sequence(m, f.module, c.args[0])
                    if seq is not None:
                        return Form.k(len(seq))
                cls = m.resolve_class(f.module, fn)
            elif isinstance(fn, ast.Subscript):
                seq = _class_sequence(m, f.module, fn.value)
                idx = ev.ev(fn.slice)
                if seq is not None and idx.is_const() and 0 <= idx.const < len(seq):
                    cls = seq[idx.const]
                elif seq is not None and idx.is_const():
                    raise Inconclusive(f"decode table indexed with {idx.const} (length {len(seq)})")
            if cls is not None:
                args = []
                for a in c.args:
                    try:
                        args.append(ev.ev(a))
                    except Inconclusive:
                        args.append(None)
                _seen.append((cls, args, c))
                return Form.k(0)
            return None

        run = AbsRun(m, f, {word: Form.k(k << 12) + Form.field("a", 0, 12)}, {}, on_call=on_call)
        try:
            run.run()
        except Inconclusive as exc:
            raise AnalysisError(f"{f.loc()}: ToyInstruction.from_integer is outside the abstract interpreter for opcode {k}: {exc}")
        if len(seen) == 1:
            got[k] = seen[0]
    total = len(got) == 16
    # the default: the class of the opcodes no constructor claims (callers compare it with NOP)
    tab = toy_table(ctx)
    assigned = {row["opcode"] for row in tab["rows"].values() if isinstance(row["opcode"], int)}
    free = [k for k in range(16) if k not in assigned and k in got]
    default = got[free[0]][0] if free and all(got[k][0] is got[free[0]][0] for k in free) else None
    chain = {k: (c, call) for k, (c, args, call) in got.items() if k in assigned}
    ctx.__dict__["_toy_decode_args"] = {k: args for k, (c, args, call) in got.items()}
    return chain, default, total


def run(ctx: Ctx) -> None:
    m = ctx.model
    from .c15 import tokenize_clause
    tokenize_clause(ctx, ctx.rule("R19.tok", "every line is tokenised by the TOY grammar itself (nothing remembered across parsers or texts)"))
    tab = toy_table(ctx)
    rows = tab["rows"]
    mod = tab["module"]

    r = ctx.rule("R19.tab", "constructor constants, decode chain, mnemonic map, parser lists, micro-program agree")
    opcodes: dict = {}
    for key, row in sorted(rows.items()):
        c = row["cls"]
        ok = row["mnemonic"] == key and isinstance(row["opcode"], int) and 0 <= row["opcode"] < 16 and row["opcode"] not in opcodes
        r.check(ok, f"instruction_map[{key}]", c.loc(), f"TOY instruction_map['{key}'] -> {c.name} whose constructor says "
                f"mnemonic={row['mnemonic']!r} opcode={row['opcode']!r} (mnemonic must equal the key, opcodes distinct in 0..15)",
                {"class": c.name, "opcode": row["opcode"]})
        if isinstance(row["opcode"], int):
            opcodes.setdefault(row["opcode"], c)
        r.check("behavior" in c.methods, f"{c.name}.behavior", c.loc(), f"TOY {c.name} does not define its own behavior()")
    chain, default, total = decode_chain(ctx)
    f = m.method("ToyInstruction", "from_integer", own=True)
    r.check(total and default is not None, "from_integer|total", f.loc(), "decode chain does not end in an `else: return <Cls>(address)`: "
            "some 16-bit words would decode to None")
    for k in range(16):
        want = opcodes.get(k)
        got = chain[k][0] if k in chain else default
        if want is None:
            # unassigned opcode: must fall to the default, which must be the NOP row
            nop = rows.get("NOP", {}).get("cls")
            ok = k not in chain and got is not None and got is nop
            r.check(ok, f"from_integer|opcode {k}", f.loc(), f"unassigned opcode {k} decodes to {got.name if got else None}, documented: NOP")
        else:
            ok = got is want
            r.check(ok, f"from_integer|opcode {k}", f.loc(chain[k][1]) if k in chain else f.loc(),
                    f"opcode {k} is {want.name} by its constructor but decodes to {got.name if got else None}")
    from ..bitslice import Form as _Form
    dargs = ctx.__dict__.get("_toy_decode_args", {})
    for k, (c, call) in chain.items():
        a = dargs.get(k, [])
        ok = len(a) == 1 and a[0] is not None and a[0] == _Form.field("a", 0, 12) and not call.keywords
        r.check(ok, f"from_integer|address {k}", f.loc(call), f"decode of opcode {k} does not pass the 12-bit address field on "
                f"(argument: {a[0].describe() if a and a[0] is not None else '?'})")
    # parser lists
    atc = m.cls("AddressTypeInstruction")
    p = m.cls("ToyParser")
    try:
        am = fold_in(m, p.module, p.assigns["_address_mnemonics"], p)
        nm = fold_in(m, p.module, p.assigns["_no_address_mnemonics"], p)
    except (KeyError, Unknown) as exc:
        raise AnalysisError(f"ToyParser mnemonic lists: {exc}")
    want_a = sorted(k for k, row in rows.items() if m.is_subclass(row["cls"], atc))
    want_n = sorted(k for k, row in rows.items() if not m.is_subclass(row["cls"], atc))
    r.check(sorted(am) == want_a, "ToyParser._address_mnemonics", p.loc(), f"_address_mnemonics {sorted(am)} != address-type classes {want_a}")
    r.check(sorted(nm) == want_n, "ToyParser._no_address_mnemonics", p.loc(), f"_no_address_mnemonics {sorted(nm)} != remaining classes {want_n}")
    # parser looks the class up by upper-cased mnemonic and dispatches on AddressTypeInstruction
    li = m.method(p, "_load_instructions", own=True)
    from ..parsershape import normal_flow
    lfl = normal_flow(m, li)
    alltxt = " ".join(lfl.canon(e.expr) + " | " + lfl.canon_cond(e.cond) for e in lfl.effects)
    CLS = "instruction_map[ELEM1.0(P0.text)[2].mnemonic.upper()]"
    r.check(f"{CLS}(address=" in alltxt and f"{CLS}()" in alltxt and f"issubclass({CLS}, AddressTypeInstruction)" in alltxt,
            "ToyParser._load_instructions|dispatch", li.loc(), "parser no longer instantiates instruction_map[MNEMONIC] by address/no-address kind")
    # micro program
    mp = m.cls("MicroProgram")
    keys = []
    d = mp.assigns.get("_instr_mp_mapping")
    if not isinstance(d, ast.Dict):
        raise AnalysisError("anchor vanished: MicroProgram._instr_mp_mapping")
    for k in d.keys:
        c = m.resolve_class(mp.module, k) if k is not None else None
        keys.append(c)
    ok = None not in keys and set(keys) == {row["cls"] for row in rows.values()} and len(keys) == len(set(keys))
    r.check(ok, "MicroProgram._instr_mp_mapping", mp.loc(), "micro-program table does not cover exactly the 13 instruction classes")
    r.floor(45)

    fields_rule(ctx)
    asm_rule(ctx)
    from ..parserfresh import fresh_rule
    fresh_rule(ctx, "R19.fresh", ("ToyParser",))


def num_rule(ctx: Ctx) -> None:
    """Every operand spelling the TOY grammar accepts converts to its documented value: decimal tokens
    (leading zeros allowed by the grammar) are read in base 10, 0x tokens in base 16 after the prefix."""
    from ..ppgram import GrammarEval, Langs, find_named, int_accept, NUMS, seq, lit, G, alt
    m = ctx.model
    r = ctx.rule("R19.num", "TOY operand literals: every accepted spelling converts (decimal base 10, 0x.. base 16)")
    pc = m.cls("ToyParser")
    ge = GrammarEval(m, pc)
    f = m.method(pc, "_value_to_int", own=True)
    line = ge.get("_pattern_line")
    srcs = find_named(line, "address") + [x.items[0] for x in find_named(line, "values") if x.kind == "dlist"]
    if not srcs:
        raise AnalysisError("R19.num: TOY value tokens not found in the grammar")
    src = srcs[0] if len(srcs) == 1 else alt(srcs, False)
    arg = f.params[1]
    # the conversion under "the token starts with 0x" and under its negation, read off the normal form (an if / else with one call per
    # arm, one call with conditional arguments, locals in between: all the same)
    from ..parsershape import normal_flow
    from ..flowspec import _cond_ast
    from ..symflow import parse_expr
    nfl = normal_flow(m, f)
    npr = nfl.cprinter
    hex_test = parse_expr(f"{arg}.startswith('0x')")

    def conv_under(pol: bool):
        assume = npr._bool(hex_test, pol)
        found = set()
        for ret in nfl.returns:
            if ret.value is None:
                continue
            if ret.cond:
                t_ = npr._tables([npr._mk("and", [npr._bool(_cond_ast(ret.cond)), assume])])
                if t_ is not None and t_[1][0] == 0:
                    continue
            v = npr.resolve_under(ret.value, assume)
            calls_ = [n for n in ast.walk(v) if isinstance(n, ast.Call) and (ast.unparse(n.func) == "int" or ast.unparse(n.func).endswith("._literal_to_int"))]
            if len(calls_) != 1 or any(isinstance(x, ast.IfExp) for x in ast.walk(calls_[0])):
                return None
            n = calls_[0]
            base = 10 if ast.unparse(n.func) == "int" else 0
            for k in n.keywords:
                if k.arg == "base":
                    base = k.value.value if isinstance(k.value, ast.Constant) else None
            if ast.unparse(n.func) == "int" and len(n.args) > 1:
                base = n.args[1].value if isinstance(n.args[1], ast.Constant) else None
            if ast.unparse(n.func) != "int" and len(n.args) > 3:
                base = n.args[3].value if isinstance(n.args[3], ast.Constant) else None
            a0 = n.args[0] if n.args else None
            if isinstance(a0, ast.Name) and a0.id == arg:
                strip = 0
            elif isinstance(a0, ast.Subscript) and isinstance(a0.value, ast.Name) and a0.value.id == arg and isinstance(a0.slice, ast.Slice) \
                    and isinstance(a0.slice.lower, ast.Constant) and a0.slice.upper is None and a0.slice.step is None:
                strip = a0.slice.lower.value
            elif isinstance(a0, ast.Call) and isinstance(a0.func, ast.Attribute) and a0.func.attr == "removeprefix" and isinstance(a0.func.value, ast.Name) \
                    and a0.func.value.id == arg and len(a0.args) == 1 and isinstance(a0.args[0], ast.Constant) and a0.args[0].value == "0x" and pol:
                strip = 2
            else:
                return None
            found.add((base, strip))
        return found

    split = {True: conv_under(True), False: conv_under(False)}
    distinguishes = split[True] is not None and split[False] is not None and len(split[True]) == 1 and len(split[False]) == 1 and split[True] != split[False]
    iff = next((n for n in f.node.body if isinstance(n, ast.If) and ast.unparse(n.test) == f"{arg}.startswith('0x')"), None)
    if distinguishes:
        for label, keep in (("hexadecimal", True), ("decimal", False)):
            base, strip = next(iter(split[keep]))
            if base is None:
                r.check(False, f"_value_to_int|{label}", f.loc(), f"the base of the conversion of {label} operands is not a constant")
                continue
            acc = int_accept(base)
            L = Langs([src, acc], extra_chars="0x")
            d = L.with_prefix(L.dfa(src), "0x", keep)
            if strip:
                d = L.quotient(d, "0x"[:strip])
            w = L.witness_not_in(d, L.dfa(acc))
            want_base = 16 if keep else 10
            r.check(w is None and base == want_base and (strip == 2) == keep, f"_value_to_int|{label}", f.loc(),
                    f"{label} operands are converted with base {base} after stripping {strip} character(s); "
                    + (f"the accepted spelling {('0x' if keep and strip else '') + (w or '')!r} would be rejected or misread" if w is not None else
                       f"documented: base {want_base}"), {"base": base, "strip": strip})
        return
    if iff is None:
        # no hex/decimal split: one conversion must then accept every spelling with its documented value
        base = None
        for n in ast.walk(f.node):
            if isinstance(n, ast.Call) and (ast.unparse(n.func) == "int" or ast.unparse(n.func).endswith("._literal_to_int")):
                base = 10 if ast.unparse(n.func) == "int" else 0
                for k in n.keywords:
                    if k.arg == "base" and isinstance(k.value, ast.Constant):
                        base = k.value.value
        if base is None:
            raise AnalysisError("anchor vanished: conversion in ToyParser._value_to_int")
        acc = int_accept(base)
        L = Langs([src, acc], extra_chars="0x")
        w = L.witness_not_in(L.dfa(src), L.dfa(acc))
        # base 0 reads 0x.. as hex and rejects decimals with leading zeros; base 10/16 cannot read both kinds
        r.check(w is None and base == 0 and False, "_value_to_int|single-conversion", f.loc(),
                f"operands are converted by a single int(., base={base}); the grammar also accepts {w!r}, which that conversion rejects "
                "(decimal operands may have leading zeros; hexadecimal ones carry the 0x prefix)")
        return

    def conv(blk):
        for n in ast.walk(ast.Module(body=blk, type_ignores=[])):
            if isinstance(n, ast.Call) and (ast.unparse(n.func) == "int" or ast.unparse(n.func).endswith("._literal_to_int")):
                base = 10 if ast.unparse(n.func) == "int" else 0
                for k in n.keywords:
                    if k.arg == "base" and isinstance(k.value, ast.Constant):
                        base = k.value.value
                if ast.unparse(n.func) == "int" and len(n.args) > 1 and isinstance(n.args[1], ast.Constant):
                    base = n.args[1].value
                a0 = n.args[0]
                strip = a0.slice.lower.value if isinstance(a0, ast.Subscript) and isinstance(a0.slice, ast.Slice) and isinstance(a0.slice.lower, ast.Constant) else 0
                return base, strip
        return None, 0

    for label, blk, keep in (("hexadecimal", iff.body, True), ("decimal", iff.orelse, False)):
        base, strip = conv(blk)
        if base is None:
            r.check(False, f"_value_to_int|{label}", f.loc(), f"no conversion found for {label} operands")
            continue
        acc = int_accept(base)
        L = Langs([src, acc], extra_chars="0x")
        d = L.with_prefix(L.dfa(src), "0x", keep)
        if strip:
            d = L.quotient(d, "0x"[:strip])
        w = L.witness_not_in(d, L.dfa(acc))
        want_base = 16 if keep else 10
        r.check(w is None and base == want_base and (strip == 2) == keep, f"_value_to_int|{label}", f.loc(),
                f"{label} operands are converted with base {base} after stripping {strip} character(s); "
                + (f"the accepted spelling {('0x' if keep and strip else '') + (w or '')!r} would be rejected or misread" if w is not None else
                   f"documented: base {want_base}"), {"base": base, "strip": strip})


def fields_rule(ctx: Ctx, rid: str = "R19.fields") -> None:
    m = ctx.model
    r = ctx.rule(rid, "opcode occupies bits [12,16), address bits [0,12), in both directions")
    ti = m.cls("ToyInstruction")
    init = m.method(ti, "__init__", own=True)

    def ev(expr: ast.AST, env: dict) -> Form:
        try:
            return Evaluator(env, None).ev(expr)
        except Inconclusive as exc:
            raise AnalysisError(f"{rid}: `{ast.unparse(expr)}` is outside the bit-slice domain: {exc}")

    fld: dict = {}
    for n in walk_no_nested(init.node):
        if isinstance(n, ast.Assign) and isinstance(n.targets[0], ast.Attribute) and n.targets[0].attr in ("opcode", "address"):
            fld[n.targets[0].attr] = n.value
    if set(fld) != {"opcode", "address"}:
        raise AnalysisError("anchor vanished: ToyInstruction.__init__ field assignments")
    env = {'int(kwargs["opcode"])': Form.var("opcode"), "int(kwargs['opcode'])": Form.var("opcode"),
           'kwargs["opcode"]': Form.var("opcode"), "kwargs['opcode']": Form.var("opcode"), "address": Form.var("address")}
    fo = ev(fld["opcode"], env)
    fa = ev(fld["address"], env)
    r.check(fo == Form.field("opcode", 0, 4), "ToyInstruction.opcode", init.loc(), f"stored opcode is {fo.describe()}, a 4-bit field is required")
    r.check(fa == Form.field("address", 0, 12), "ToyInstruction.address", init.loc(), f"stored address is {fa.describe()}, a 12-bit field is required")
    ai = m.method("AddressTypeInstruction", "__init__", own=True)
    for n in walk_no_nested(ai.node):
        if isinstance(n, ast.Assign) and isinstance(n.targets[0], ast.Attribute) and n.targets[0].attr == "address":
            f2 = ev(n.value, env)
            r.check(f2 == Form.field("address", 0, 12), "AddressTypeInstruction.address", ai.loc(n),
                    f"stored address is {f2.describe()}, a 12-bit field is required")
    # encode
    ti_f = m.method(ti, "to_integer", own=True)
    rets = [n for n in walk_no_nested(ti_f.node) if isinstance(n, ast.Return)]
    if len(rets) != 1 or rets[0].value is None:
        raise AnalysisError("anchor vanished: ToyInstruction.to_integer return")
    s0 = ti_f.params[0]
    enc = ev(rets[0].value, {f"{s0}.opcode": Form.field("opcode", 0, 4), f"{s0}.address": Form.field("address", 0, 12)})
    want = Form.field("opcode", 0, 4).lshift(12) + Form.field("address", 0, 12)
    r.check(enc == want, "ToyInstruction.to_integer", ti_f.loc(), f"machine word is {enc.describe()}; documented layout is {want.describe()}")
    ii = m.method(ti, "__int__", own=True)
    r.check("to_integer()" in ast.unparse(ii.node), "ToyInstruction.__int__", ii.loc(), "__int__ is not to_integer()")
    # decode
    fi = m.method(ti, "from_integer", own=True)
    dec: dict = {}
    for n in fi.node.body:
        if isinstance(n, ast.Assign) and isinstance(n.targets[-1], ast.Name) and n.targets[-1].id in ("opcode", "address"):
            dec[n.targets[-1].id] = n.value
    arg = fi.params[1]
    if set(dec) == {"opcode", "address"}:
        do = ev(dec["opcode"], {arg: Form.var("w")})
        da = ev(dec["address"], {arg: Form.var("w")})
        r.check(do == Form.field("w", 12, 16), "from_integer.opcode", fi.loc(), f"decoded opcode is {do.describe()}, expected bits 12..15 of the word")
        r.check(da == Form.field("w", 0, 12), "from_integer.address", fi.loc(), f"decoded address is {da.describe()}, expected bits 0..11 of the word")
    else:
        # no locals of that name: read the fields off the abstract runs of the decoder (one per opcode k, word = k*2**12 + a):
        # opcode k must construct the class of opcode k (R19.tab), and every address-type constructor must be handed a = bits 0..11
        chain, _default, total = decode_chain(ctx)
        dargs = ctx.__dict__.get("_toy_decode_args", {})
        atc_ = m.cls("AddressTypeInstruction")
        bad = [(k, a[0].describe() if a and a[0] is not None else "?") for k, (c, call) in sorted(chain.items())
               if m.is_subclass(c, atc_) and not (dargs.get(k) and dargs[k][0] is not None and dargs[k][0] == Form.field("a", 0, 12)) for a in [dargs.get(k)]]
        r.check(total, "from_integer.opcode", fi.loc(), "the decoder does not construct exactly one instruction for each of the 16 opcode values (bits 12..15 of the word)")
        r.check(not bad, "from_integer.address", fi.loc(), f"decoded address is not bits 0..11 of the word for opcodes {bad}")
    for name, want_f in (("op_code_value", Form.field("w", 12, 16)), ("address_section_value", Form.field("w", 0, 12))):
        g = m.method(ti, name, own=True)
        rets = [n for n in walk_no_nested(g.node) if isinstance(n, ast.Return)]
        got = ev(rets[0].value, {f"int({g.params[0]})": Form.var("w")}) if rets and rets[0].value is not None else None
        r.check(got == want_f, f"ToyInstruction.{name}", g.loc(), f"{name} extracts {got.describe() if got else '?'}")
    r.floor(9)


def asm_rule(ctx: Ctx, rid: str = "R19.asm") -> None:
    m = ctx.model
    r = ctx.rule(rid, "instruction i at address i, max_pc = len-1, labels count mnemonic lines, data grows downward")
    p = m.cls("ToyParser")
    li = m.method(p, "_load_instructions", own=True)
    from ..toyparserspec import placement_rules
    placement_rules(ctx, r)
    # which lines are code at all: the segment split (shared by both assemblers) against its reference formulation
    from ..flowspec import compare
    from .c05 import SEGMENT_REF
    sg = m.method("Parser", "_segment", own=True)
    compare(r, m, sg, SEGMENT_REF, "segments", keep=lambda k, t: not (k == "call" and t.endswith(".get('directive')")),
            what="_segment splits the token list at the .data / .text directives in either order, keeping every line of the open segment")
    # label pass
    pl = m.method(p, "_process_labels")
    from ..pathsym import disj, iteration_paths, same_function
    from ..symflow import Printer
    s0 = pl.params[0]
    loop = next((n for n in pl.node.body if isinstance(n, ast.For) and ast.unparse(n.iter) == f"{s0}.token_list"), None)
    if loop is None or not (isinstance(loop.target, ast.Tuple) and len(loop.target.elts) == 3 and all(isinstance(x, ast.Name) for x in loop.target.elts)):
        raise AnalysisError("anchor vanished: `for line_number, line, tokens in self.token_list` in ToyParser._process_labels")
    al = {loop.target.elts[0].id: "N", loop.target.elts[1].id: "L", loop.target.elts[2].id: "E"}
    counter = next((ast.unparse(n.target) for n in ast.walk(loop) if isinstance(n, ast.AugAssign) and isinstance(n.target, ast.Name)), None)
    if counter is None:
        raise AnalysisError("anchor vanished: the address counter of ToyParser._process_labels")
    pr = Printer(m, pl.params, al, canonical=True)
    incs: dict = {}
    binds: dict = {}
    late = []
    for path, body, cond, leaves in iteration_paths(pl.node, loop, keep={counter}):
        if path.term == "raise" and leaves:
            continue
        adds = [se for se in body if se.event.kind == "stmt" and isinstance(se.node, ast.AugAssign) and ast.unparse(se.node.target) == counter]
        key = " + ".join(sorted(pr.show(a.node.value) for a in adds)) if adds else "0"
        incs.setdefault(key, []).append(cond)
        for se in body:
            for c in calls_in(se.node):
                if isinstance(c.func, ast.Attribute) and c.func.attr == "_add_label_mapping":
                    kw = {k.arg: k.value for k in c.keywords}
                    am = m.method("Parser", "_add_label_mapping")
                    for p_, v in zip(am.params[1:], c.args):
                        kw.setdefault(p_, v)
                    from ..pathsym import conj

                    def arms(x: ast.AST, under: list):
                        # a label chosen by a conditional expression: one binding per arm, under the arm's condition
                        if isinstance(x, ast.IfExp):
                            yield from arms(x.body, under + [x.test])
                            yield from arms(x.orelse, under + [ast.UnaryOp(op=ast.Not(), operand=x.test)])
                        else:
                            yield x, under
                    for leaf, under in arms(kw.get("label", ast.Constant(value=None)), []):
                        binds.setdefault((pr.show(leaf), pr.show(kw.get("value", ast.Constant(value=None)))), []).append(conj([cond] + under) if under else cond)
                    if any(a.index < se.index for a in adds):
                        late.append(se)
    DECL = "E.get_name() == 'label_declaration'"
    ok, shown = same_function(m, disj(incs.get("1", [])), f"not ({DECL}) and E.mnemonic", al) if "1" in incs else (False, "never")
    extra = [k for k in incs if k not in ("0", "1")]
    r.check(ok and not extra, "ToyParser._process_labels|count", pl.loc(loop),
            f"the label pass advances by one exactly when `{shown}`{' and by ' + str(extra) + ' elsewhere' if extra else ''}; required: on every line "
            "with a mnemonic that is not a stand-alone label declaration")
    want = {("E.label", counter): DECL, ("E.in_line_label[0]", counter): f"not ({DECL}) and E.in_line_label"}
    for k in sorted(set(binds) | set(want)):
        # a guard `label is not None` in front of the binding only skips binding a None label: not a difference
        none_atoms = {f"Is({k[0]}, None)": False, f"Is(None, {k[0]})": False}
        okb, shownb = same_function(m, disj(binds[k]), want.get(k, "False"), al, assume=none_atoms) if k in binds else (False, "never")
        r.check(okb, f"ToyParser._process_labels|bind:{k[0]}", pl.loc(loop),
                f"the label pass binds `{k[0]}` to `{k[1]}` exactly when `{shownb}`; required: `{want.get(k, 'never')}` "
                "(a declaration line binds its label, an instruction line its in-line label, both to the address of the next instruction)")
    r.check(not late, "ToyParser._process_labels|bind-before-advance", pl.loc(late[0].node) if late else pl.loc(loop),
            "a label is bound after the address was advanced past its own line")
    r.check(isinstance(loop.iter, ast.Attribute) and loop.iter.attr == "token_list", "ToyParser._process_labels|scope", pl.loc(),
            "labels are not computed over the whole token list (segment order would matter)")
    # operand resolution: `label` is also bound by an in-line label declaration, so the operand may only be
    # read from tokens.label when no numeric operand was given
    from ..guards import facts_of
    from ..paths import function_paths, event_exprs
    n_lab = 0
    tloop = next((n for n in ast.walk(li.node) if isinstance(n, ast.For) and ast.unparse(n.iter) == f"{li.params[0]}.text" and isinstance(n.target, ast.Tuple)
                  and len(n.target.elts) == 3 and isinstance(n.target.elts[2], ast.Name)), None)
    if tloop is None:
        raise AnalysisError("anchor vanished: `for .. in self.text` in ToyParser._load_instructions")
    tk = tloop.target.elts[2].id
    for p_ in function_paths(li.node):
        facts: set = set()
        for e in p_.events:
            if e.kind == "test":
                facts |= facts_of(e.node, bool(e.pol))
            for x in event_exprs(e):
                for sb in ast.walk(x):
                    if isinstance(sb, ast.Subscript) and ast.unparse(sb.value) == f"{li.params[0]}.labels" and ast.unparse(sb.slice) == f"{tk}.label":
                        n_lab += 1
                        ok = (f"{tk}.address", False) in facts
                        if not ok:
                            r.viol("ToyParser._load_instructions|operand-kind", li.loc(sb), "the operand is taken from tokens.label without first "
                                   "establishing that no numeric operand was given; an in-line label declaration binds the same results name, "
                                   "so `x: ADD 5` would be assembled with the address of x", p_.labels()[:8])
                            break
    r.check(n_lab > 0, "ToyParser._load_instructions|label-operand", li.loc(), "label operands are no longer resolved through self.labels")
    num_rule(ctx)
    # parse order: labels before data and instructions, so segment order is irrelevant
    pa = m.method(p, "parse", own=True)
    order = [c.func.attr for c in calls_in(pa.node) if isinstance(c.func, ast.Attribute) and c.func.attr.startswith("_")]
    want = ["_sanitize", "_tokenize", "_segment", "_process_labels", "_write_data", "_load_instructions"]
    r.check(order == want, "ToyParser.parse|phases", pa.loc(), f"parse phases are {order}, expected {want}")
    r.floor(10)
