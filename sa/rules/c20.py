"""C20 -- TOY two-phase stepping.

R20.seq    in first_cycle_step / second_cycle_step the not-done test and the
           next_cycle test dominate every effect; a path that finds the wrong
           next_cycle ends in `raise StepSequenceError`, a done path in `return`.
R20.comp   step() has no effect of its own: first_cycle_step(); second_cycle_step()
           in that order (both self-guarded); single_step() dispatches on
           next_cycle to exactly the half that is due.
R20.own    next_cycle is written only 1 (init), ->2 (first half), ->1 (second half).
"""
from __future__ import annotations

import ast

from ..common import attr_stores, const_int, effects, seg, short
from ..guards import GuardAnalysis, facts_of
from ..model import AnalysisError
from ..paths import calls_in, event_exprs, function_paths
from ..report import Ctx

EXPLANATION = (
    "Decides the sequencing clauses structurally: on every enumerated path of the two half-step "
    "methods the first event with a non-empty write-effect summary is preceded by both the "
    "is_done() early return and the next_cycle comparison; paths with the wrong next_cycle end in "
    "raise StepSequenceError before any effect ('raises and leaves the state unchanged'); step() "
    "and single_step() act only through those self-guarded halves, in the right order / on the "
    "right flag value; next_cycle has exactly three writers. Snapshot equality by value is not decided."
)
ASSUMPTIONS = ["next_cycle ranges over {1, 2} (established by R20.own: its only writers store 1 or 2)"]
TRUSTED = ["CPython ast", "sa.effects summaries", "sa.paths enumeration"]

ATOM1 = "1 == self.next_cycle"
ATOM2 = "2 == self.next_cycle"


def _not_done(facts: set) -> bool:
    return any(a.endswith(".is_done()") and v is False for a, v in facts)


def _done(facts: set) -> bool:
    return any(a.endswith(".is_done()") and v is True for a, v in facts)


def _seq(facts: set, k: int) -> bool:
    mine, other = (ATOM1, ATOM2) if k == 1 else (ATOM2, ATOM1)
    return (mine, True) in facts or (other, False) in facts


def _seq_wrong(facts: set, k: int) -> bool:
    return _seq(facts, 3 - k)


HALF = {"first_cycle_step": 1, "second_cycle_step": 2}


def _required(f, facts: set) -> bool:
    if f.name in HALF:
        return _not_done(facts) and _seq(facts, HALF[f.name])
    return False  # step()/single_step() may not have effects of their own


def _path_facts(p) -> set:
    out: set = set()
    for e in p.events:
        if e.kind == "test":
            out |= facts_of(e.node, bool(e.pol))
    return out


def _self_calls(p, f) -> list[str]:
    out = []
    for e in p.events:
        for x in event_exprs(e):
            for c in calls_in(x):
                if isinstance(c.func, ast.Attribute) and isinstance(c.func.value, ast.Name) \
                        and c.func.value.id == f.params[0] and c.func.attr in HALF:
                    out.append(c.func.attr)
    return out


def run(ctx: Ctx) -> None:
    m = ctx.model
    eff = effects(ctx)
    ga = GuardAnalysis(eff, _required, describe="the is_done() return and the next_cycle test")
    sim = m.cls("ToySimulation")

    r = ctx.rule("R20.seq", "sequence check precedes every effect; wrong order raises StepSequenceError")
    for name, k in HALF.items():
        f = m.method(sim, name, own=True)
        rep = ga.analyse(f)
        key = f"ToySimulation.{name}"
        r.inst(key, {"paths": rep.paths, "first_effects": rep.effect_events})
        if rep.effect_events == 0:
            raise AnalysisError(f"R20.seq {key}: no effect found -- effect analysis lost the half-step")
        for node, msg, labels in rep.problems:
            r.viol(f"{key}|{seg(f, node)}", f.loc(node), f"{key}: {msg}", ["path:"] + labels)
        nwrong = ndone = 0
        for p in function_paths(f.node):
            facts = _path_facts(p)
            if _done(facts):
                ndone += 1
                if p.term not in ("return", "fall"):
                    r.viol(f"{key}|done-path", f.loc(p.term_node or f.node),
                           f"{key}: the done path does not simply return", p.labels())
            elif _seq_wrong(facts, k):
                nwrong += 1
                if not _not_done(facts):
                    r.viol(f"{key}|raise-when-done", f.loc(p.term_node or f.node),
                           f"{key}: the sequencing error is raised without having established that the program is not done: "
                           "a call after completion must be a no-op, not an error", p.labels())
                exc = p.term_node.exc if p.term == "raise" and isinstance(p.term_node, ast.Raise) else None
                cls = m.resolve_class(f.module, exc.func) if isinstance(exc, ast.Call) else None
                if cls is None or cls.name != "StepSequenceError":
                    r.viol(f"{key}|wrong-order-path", f.loc(p.term_node or f.node),
                           f"{key}: a call with next_cycle != {k} does not end in raise StepSequenceError",
                           p.labels())
        r.inst(f"{key}|terminators", {"done_paths": ndone, "wrong_order_paths": nwrong})
        if nwrong == 0:
            r.viol(f"{key}|no-sequence-test", f.loc(), f"{key}: no path tests next_cycle against {k}")
        if ndone == 0:
            r.viol(f"{key}|no-done-test", f.loc(), f"{key}: no path tests is_done()")
    r.floor(4)

    r = ctx.rule("R20.comp", "step()/single_step() act only through the self-guarded halves")
    f = m.method(sim, "step", own=True)
    rep = ga.analyse(f)
    key = "ToySimulation.step"
    for node, msg, labels in rep.problems:
        r.viol(f"{key}|{seg(f, node)}", f.loc(node), f"{key} has an effect of its own: {msg}", ["path:"] + labels)
    n = 0
    for p in function_paths(f.node):
        if p.term == "raise":
            exc = p.term_node.exc if isinstance(p.term_node, ast.Raise) else None
            cls = m.resolve_class(f.module, exc.func) if isinstance(exc, ast.Call) else None
            if cls is None or cls.name != "StepSequenceError":
                r.viol(f"{key}|raise", f.loc(p.term_node), f"{key} raises something other than StepSequenceError")
            if _self_calls(p, f):
                r.viol(f"{key}|raise-after-half", f.loc(p.term_node), f"{key} raises after running a half-step", p.labels())
            continue
        n += 1
        calls = _self_calls(p, f)
        if calls != ["first_cycle_step", "second_cycle_step"]:
            r.viol(f"{key}|order", f.loc(), f"{key}: a path runs {calls or 'no half'} instead of first then second half",
                   p.labels())
    r.inst(key, {"non_raising_paths": n, "self_guarded": sorted(short(x) for x in rep.guarded_callees)})
    f = m.method(sim, "single_step", own=True)
    rep = ga.analyse(f)
    key = "ToySimulation.single_step"
    for node, msg, labels in rep.problems:
        r.viol(f"{key}|{seg(f, node)}", f.loc(node), f"{key} has an effect of its own: {msg}", ["path:"] + labels)
    n = 0
    for p in function_paths(f.node):
        n += 1
        calls = _self_calls(p, f)
        facts = _path_facts(p)
        ok = len(calls) == 1 and _seq(facts, HALF[calls[0]])
        if not ok:
            r.viol(f"{key}|dispatch", f.loc(), f"{key}: a path runs {calls} under assumptions that do not say "
                   "that half is due", p.labels())
    r.inst(key, {"paths": n})
    r.floor(2)

    r = ctx.rule("R20.own", "next_cycle has exactly three writers: 1 / ->2 / ->1")
    want = {"__init__": 1, "first_cycle_step": 2, "second_cycle_step": 1}
    seen: dict = {}
    for f, st, t in attr_stores(m, "next_cycle"):
        key = short(f.qname)
        val = const_int(st.value) if isinstance(st, ast.Assign) else None
        ok = f.cls is sim and f.name in want and val == want[f.name] and f.name not in seen
        seen[f.name] = True
        r.check(ok, key, f.loc(st), f"unexpected writer of next_cycle: {key}: `{seg(f, st)}`")
    for name in want:
        if name not in seen:
            r.viol(f"ToySimulation.{name}|missing", sim.loc(), f"ToySimulation.{name} no longer sets next_cycle")
    r.floor(3)
