"""C20 -- TOY two-phase stepping.

R20.seq    in first_cycle_step / second_cycle_step the not-done test and the
           next_cycle test dominate every effect; a path that finds the wrong
           next_cycle ends in `raise StepSequenceError`, a done path in `return`.
R20.comp   step() has no effect of its own: first_cycle_step(); second_cycle_step()
           in that order (both self-guarded); single_step() dispatches on
           next_cycle to exactly the half that is due.
R20.own    next_cycle is written only 1 (init), ->2 (first half), ->1 (second half).
R20.cost   the TOY counters are written only inside the two half steps.
"""
from __future__ import annotations

import ast

from ..common import attr_stores, const_int, effects, seg, short
from ..guards import GuardAnalysis, facts_of
from ..model import AnalysisError
from ..paths import calls_in, event_exprs, function_paths
from ..report import Ctx

EXPLANATION = (
    "Decides the sequencing clauses structurally: on every enumerated path of the two half-step "
    "methods the first event with a non-empty write-effect summary is preceded by both the "
    "is_done() early return and the next_cycle comparison; paths with the wrong next_cycle end in "
    "raise StepSequenceError before any effect ('raises and leaves the state unchanged'); step() "
    "and single_step() act only through those self-guarded halves, in the right order / on the "
    "right flag value; next_cycle has exactly three writers. Snapshot equality by value is not decided."
)
ASSUMPTIONS = ["next_cycle ranges over {1, 2} (established by R20.own: its only writers store 1 or 2)"]
TRUSTED = ["CPython ast", "sa.effects summaries", "sa.paths enumeration"]

ATOM1 = "1 == self.next_cycle"
ATOM2 = "2 == self.next_cycle"


def _not_done(facts: set) -> bool:
    return any(a.endswith(".is_done()") and v is False for a, v in facts)


def _done(facts: set) -> bool:
    return any(a.endswith(".is_done()") and v is True for a, v in facts)


def _seq(facts: set, k: int) -> bool:
    mine, other = (ATOM1, ATOM2) if k == 1 else (ATOM2, ATOM1)
    return (mine, True) in facts or (other, False) in facts


def _seq_wrong(facts: set, k: int) -> bool:
    return _seq(facts, 3 - k)


HALF = {"first_cycle_step": 1, "second_cycle_step": 2}


def _required(f, facts: set) -> bool:
    if f.name in HALF:
        return _not_done(facts) and _seq(facts, HALF[f.name])
    return False  # step()/single_step() may not have effects of their own


def _path_facts(p) -> set:
    out: set = set()
    for e in p.events:
        if e.kind == "test":
            out |= facts_of(e.node, bool(e.pol))
    return out


def _self_calls(p, f) -> list[str]:
    out = []
    for e in p.events:
        for x in event_exprs(e):
            for c in calls_in(x):
                if isinstance(c.func, ast.Attribute) and isinstance(c.func.value, ast.Name) \
                        and c.func.value.id == f.params[0] and c.func.attr in HALF:
                    out.append(c.func.attr)
    return out


def _maybe_none(m, e: ast.AST) -> bool:
    """Can this argument expression be None?  A None literal; an attribute that some statement of the package sets to None
    (or whose initialiser / annotation says Optional)."""
    if isinstance(e, ast.Constant):
        return e.value is None
    if isinstance(e, ast.IfExp):
        return _maybe_none(m, e.body) or _maybe_none(m, e.orelse)
    if isinstance(e, ast.Attribute):
        from ..common import attr_stores
        for f, st, t in attr_stores(m, e.attr, skip_cli=False):
            v = getattr(st, "value", None)
            if isinstance(v, ast.Constant) and v.value is None:
                return True
            ann = getattr(st, "annotation", None)
            if ann is not None and ("Optional" in ast.unparse(ann) or "None" in ast.unparse(ann)):
                return True
        raw = [x for mod in m.modules.values() for c in mod.classes.values() for x in c.node.body
               if isinstance(x, ast.AnnAssign) and isinstance(x.target, ast.Name) and x.target.id == e.attr]
        return any((x.value is not None and isinstance(x.value, ast.Constant) and x.value.value is None)
                   or "Optional" in ast.unparse(x.annotation) or "None" in ast.unparse(x.annotation) for x in raw)
    return False


def _strict_field_uses(cls, m) -> dict:
    """Fields of an exception class that its construction code (__init__ / __post_init__ / __new__) uses in a way that fails for
    None: a format spec or conversion in an f-string / format(), arithmetic, subscripting, an attribute or method, int()/hex()/len().
    -> {field: node}"""
    out: dict = {}
    for name in ("__init__", "__post_init__", "__new__"):
        f = cls.methods.get(name)
        if f is None:
            continue
        s0 = f.params[0] if f.params else "self"

        def fld(x: ast.AST):
            if isinstance(x, ast.Attribute) and isinstance(x.value, ast.Name) and x.value.id == s0:
                return x.attr
            if isinstance(x, ast.Name) and x.id in f.params[1:]:
                return x.id
            return None

        for n in ast.walk(f.raw_node if hasattr(f, "raw_node") else f.__dict__.get("raw_node", f.node)):
            cands: list = []
            if isinstance(n, ast.FormattedValue) and (n.format_spec is not None):
                cands.append(n.value)
            elif isinstance(n, ast.BinOp):
                cands += [n.left, n.right]
            elif isinstance(n, ast.UnaryOp) and not isinstance(n.op, ast.Not):
                cands.append(n.operand)
            elif isinstance(n, ast.Subscript):
                cands.append(n.value)
            elif isinstance(n, ast.Attribute) and fld(n) is None:
                cands.append(n.value)
            elif isinstance(n, ast.Call) and isinstance(n.func, ast.Name) and n.func.id in ("int", "hex", "bin", "oct", "len", "format", "abs", "chr", "ord"):
                cands += n.args[:1]
            elif isinstance(n, ast.Call) and isinstance(n.func, ast.Attribute) and n.func.attr == "format" and isinstance(n.func.value, ast.Constant) \
                    and isinstance(n.func.value.value, str) and ":" in n.func.value.value:
                cands += list(n.args)
            for c in cands:
                k = fld(c)
                if k is not None and k not in out:
                    out[k] = (f, n)
    return out


def _ctor_fields(cls) -> list:
    """Constructor parameter names of a dataclass-like exception class (annotated class-level fields, or __init__ parameters)."""
    init = cls.methods.get("__init__")
    if init is not None:
        return list(init.params[1:])
    return [x.target.id for x in cls.node.body if isinstance(x, ast.AnnAssign) and isinstance(x.target, ast.Name)]



def run(ctx: Ctx) -> None:
    m = ctx.model
    eff = effects(ctx)
    ga = GuardAnalysis(eff, _required, describe="the is_done() return and the next_cycle test")
    sim = m.cls("ToySimulation")

    r = ctx.rule("R20.seq", "sequence check precedes every effect; wrong order raises StepSequenceError")
    for name, k in HALF.items():
        f = m.method(sim, name, own=True)
        rep = ga.analyse(f)
        key = f"ToySimulation.{name}"
        r.inst(key, {"paths": rep.paths, "first_effects": rep.effect_events})
        if rep.effect_events == 0:
            raise AnalysisError(f"R20.seq {key}: no effect found -- effect analysis lost the half-step")
        for node, msg, labels in rep.problems:
            r.viol(f"{key}|{seg(f, node)}", f.loc(node), f"{key}: {msg}", ["path:"] + labels)
        nwrong = ndone = 0
        for p in function_paths(f.node):
            facts = _path_facts(p)
            if _done(facts):
                ndone += 1
                if p.term not in ("return", "fall"):
                    r.viol(f"{key}|done-path", f.loc(p.term_node or f.node),
                           f"{key}: the done path does not simply return", p.labels())
            elif _seq_wrong(facts, k):
                nwrong += 1
                if not _not_done(facts):
                    r.viol(f"{key}|raise-when-done", f.loc(p.term_node or f.node),
                           f"{key}: the sequencing error is raised without having established that the program is not done: "
                           "a call after completion must be a no-op, not an error", p.labels())
                exc = p.term_node.exc if p.term == "raise" and isinstance(p.term_node, ast.Raise) else None
                cls = m.resolve_class(f.module, exc.func) if isinstance(exc, ast.Call) else None
                if cls is None or cls.name != "StepSequenceError":
                    r.viol(f"{key}|wrong-order-path", f.loc(p.term_node or f.node),
                           f"{key}: a call with next_cycle != {k} does not end in raise StepSequenceError",
                           p.labels())
                elif isinstance(exc, ast.Call):
                    # building the error must not fail itself: a field the class formats / computes with while it is constructed
                    # must not be handed a value that can be None at this point
                    strict = _strict_field_uses(cls, m)
                    fields = _ctor_fields(cls)
                    given = {fields[i]: a for i, a in enumerate(exc.args) if i < len(fields)}
                    given.update({kw.arg: kw.value for kw in exc.keywords if kw.arg})
                    for fld_, (cf, node) in strict.items():
                        a = given.get(fld_)
                        if a is not None and _maybe_none(m, a):
                            r.viol(f"{key}|error-construction|{fld_}", f.loc(a),
                                   f"{key}: StepSequenceError is built with {fld_}=`{seg(f, a)}`, which can be None (before the first instruction has "
                                   f"begun), and {short(cf.qname)} uses that field in `{' '.join(ast.unparse(node).split())[:60]}`: the call dies with "
                                   "TypeError while constructing the error instead of raising the sequencing error", p.labels())
        r.inst(f"{key}|terminators", {"done_paths": ndone, "wrong_order_paths": nwrong})
        if nwrong == 0:
            r.viol(f"{key}|no-sequence-test", f.loc(), f"{key}: no path tests next_cycle against {k}")
        if ndone == 0:
            r.viol(f"{key}|no-done-test", f.loc(), f"{key}: no path tests is_done()")
    r.floor(4)

    r = ctx.rule("R20.comp", "step()/single_step() act only through the self-guarded halves")
    f = m.method(sim, "step", own=True)
    rep = ga.analyse(f)
    key = "ToySimulation.step"
    for node, msg, labels in rep.problems:
        r.viol(f"{key}|{seg(f, node)}", f.loc(node), f"{key} has an effect of its own: {msg}", ["path:"] + labels)
    n = 0
    for p in function_paths(f.node):
        if p.term == "raise":
            exc = p.term_node.exc if isinstance(p.term_node, ast.Raise) else None
            cls = m.resolve_class(f.module, exc.func) if isinstance(exc, ast.Call) else None
            if cls is None or cls.name != "StepSequenceError":
                r.viol(f"{key}|raise", f.loc(p.term_node), f"{key} raises something other than StepSequenceError")
            if _self_calls(p, f):
                r.viol(f"{key}|raise-after-half", f.loc(p.term_node), f"{key} raises after running a half-step", p.labels())
            continue
        n += 1
        calls = _self_calls(p, f)
        if calls != ["first_cycle_step", "second_cycle_step"]:
            r.viol(f"{key}|order", f.loc(), f"{key}: a path runs {calls or 'no half'} instead of first then second half",
                   p.labels())
    r.inst(key, {"non_raising_paths": n, "self_guarded": sorted(short(x) for x in rep.guarded_callees)})
    f = m.method(sim, "single_step", own=True)
    rep = ga.analyse(f)
    key = "ToySimulation.single_step"
    for node, msg, labels in rep.problems:
        r.viol(f"{key}|{seg(f, node)}", f.loc(node), f"{key} has an effect of its own: {msg}", ["path:"] + labels)
    n = 0
    for p in function_paths(f.node):
        n += 1
        calls = _self_calls(p, f)
        facts = _path_facts(p)
        ok = len(calls) == 1 and _seq(facts, HALF[calls[0]])
        if not ok:
            r.viol(f"{key}|dispatch", f.loc(), f"{key}: a path runs {calls} under assumptions that do not say "
                   "that half is due", p.labels())
    r.inst(key, {"paths": n})
    r.floor(2)

    # "no-ops once the program is done": the TOY counters are stepped by the two half steps themselves (behind their own done /
    # sequence tests, R20.seq) and by nothing that runs around them (a wrapper, a decorator, a metrics method called from elsewhere)
    r = ctx.rule("R20.cost", "the TOY cycle / instruction counters are written only inside the two half steps")
    n_w = 0
    for attr in ("cycles", "instruction_count"):
        for f, st, t in attr_stores(m, attr):
            if not ("toy" in f.module.name):
                continue
            n_w += 1
            ok = (f.cls is sim and f.name in HALF) or f.name == "__init__" or (f.cls is not None and f.cls.is_dataclass and f.name == "__post_init__")
            r.check(ok, f"{short(f.qname)}|{attr}-writer", f.loc(st), f"`{seg(f, st)}` in {short(f.qname)} writes the TOY counter `{attr}` outside "
                    "first_cycle_step / second_cycle_step: whatever calls it is not behind the half steps' own is_done() / next_cycle tests, so "
                    "stepping a finished program (or a half step out of order) can still advance the counter")
    in_halves = {(f.name, attr) for attr in ("cycles", "instruction_count") for f, st, t in attr_stores(m, attr) if f.cls is sim and f.name in HALF}
    for name, attr in (("first_cycle_step", "cycles"), ("second_cycle_step", "cycles"), ("second_cycle_step", "instruction_count")):
        r.check((name, attr) in in_halves, f"ToySimulation.{name}|{attr}|own", m.method(sim, name, own=True).loc(),
                f"ToySimulation.{name} no longer steps `{attr}` itself (behind its own is_done() / next_cycle tests): the counter is advanced by "
                "code around the half step (a decorator, a wrapper, a nested function), which also runs when the half step returns early "
                "because the program is done")
    r.floor(3)

    r = ctx.rule("R20.own", "next_cycle has exactly three writers: 1 / ->2 / ->1")
    want = {"__init__": 1, "first_cycle_step": 2, "second_cycle_step": 1}
    seen: dict = {}
    for f, st, t in attr_stores(m, "next_cycle"):
        key = short(f.qname)
        val = const_int(st.value) if isinstance(st, ast.Assign) else None
        ok = f.cls is sim and f.name in want and val == want[f.name] and f.name not in seen
        seen[f.name] = True
        r.check(ok, key, f.loc(st), f"unexpected writer of next_cycle: {key}: `{seg(f, st)}`")
    for name in want:
        if name not in seen:
            r.viol(f"ToySimulation.{name}|missing", sim.loc(), f"ToySimulation.{name} no longer sets next_cycle")
    # "done" is `no instruction loaded`: if anything but the second half (and the loader) unloads the instruction, a program can
    # become done in the middle of an instruction, and the done early-returns then win over the sequence check
    for f, st, t in attr_stores(m, "loaded_instruction"):
        ok = (f.cls is sim and f.name == "second_cycle_step") or (f.cls is not None and f.cls.name == "ToyArchitecturalState" and f.name == "__init__") or \
             (f.cls is not None and f.cls.name == "ToyParser" and f.name == "_load_instructions")
        r.check(ok, f"{short(f.qname)}|loaded_instruction", f.loc(st), f"unexpected writer of the instruction register: {short(f.qname)}: `{seg(f, st)}` "
                "(the program could become done between the two halves of an instruction)")
    r.floor(5)
