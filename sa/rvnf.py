"""Normal forms of RV32IM instruction semantics, extracted from the source.

Two extractions per instruction class, both purely syntactic (ast):
  * single-cycle:  the effects of ``behavior()``
  * five-stage:    the composition access_register_file -> alu_compute ->
                   memory_access -> write_back under the class's control signals
                   and the stage logic (wb_src mux, pc+imm adder, MEM redirect)
Each is a set of *cases* (path conditions -> effects) over the operand atoms
RS1 RS2 IMM PC LEN.  Casts are erased except where they change meaning:
signedness at comparisons / right shifts / division / high multiplication,
narrow sign/zero extension of loaded values, truncation of stored values, and
32-bit wrapping of pc targets (the only sink that does not wrap by itself).
"""
from __future__ import annotations

import ast
from dataclasses import dataclass, field
from typing import Optional, Union

from .consteval import Folder, Unknown
from .guards import facts_of
from .model import AnalysisError, ClassInfo, FuncInfo, Model, walk_no_nested
from .paths import Path, function_paths

# ------------------------------------------------------------------ NF terms
# term := ('a', name) | ('c', int) | ('op', name, (terms...)) | ('none',)
# sign := 's' | 'u' | 'r' (raw python int: immediates, pc) | 'c'
T = tuple
NONE = ("none",)

COMM = {"add", "mul", "and", "or", "xor", "eq", "ne"}
SIGN_SENSITIVE = {"lt", "ge", "gt", "le", "shr", "tdiv", "fdiv", "mod", "trem", "mulh"}
OPS = {ast.Add: "add", ast.Sub: "sub", ast.Mult: "mul", ast.BitAnd: "and", ast.BitOr: "or", ast.BitXor: "xor",
       ast.LShift: "shl", ast.RShift: "shr", ast.FloorDiv: "fdiv", ast.Mod: "mod", ast.Div: "div"}
CMPS = {ast.Lt: "lt", ast.GtE: "ge", ast.Gt: "gt", ast.LtE: "le", ast.Eq: "eq", ast.NotEq: "ne"}
CASTS_SIGN = {"Int32": "s", "UInt32": "u"}
NARROW = {"Int8": ("sext", 8), "Int16": ("sext", 16), "UInt8": ("trunc", 8), "UInt16": ("trunc", 16)}


class Unrecognised(Exception):
    pass


@dataclass
class Val:
    t: T
    sign: str = "r"
    wrapped: bool = False  # passed a 32-bit wrap (cast or in-range mask)


def _cast_name(f: ast.AST) -> Optional[str]:
    n = ast.unparse(f)
    n = n.split(".")[-1]
    return n if n in CASTS_SIGN or n in NARROW or n == "int" else None


class Extractor:
    def __init__(self, model: Model, fn: FuncInfo, atoms: dict[str, Val], locals_: Optional[dict] = None) -> None:
        self.model, self.fn = model, fn
        self.atoms = atoms  # source text -> Val
        self.locals: dict[str, Val] = dict(locals_ or {})
        self.folder = Folder(model, fn.module, fn.cls)
        # shift-immediate formats store a zero-extended 5-bit amount (R01.immw)
        self.imm_nonneg = fn.cls is not None and any(k.name == "ShiftITypeInstruction" for k in model.mro(fn.cls))

    def const(self, e: ast.AST) -> Optional[int]:
        try:
            v = self.folder.fold(e)
        except (Unknown, Exception):
            return None
        return v if isinstance(v, int) and not isinstance(v, bool) else None

    def ev(self, e: ast.AST) -> Val:
        txt = ast.unparse(e)
        if txt in self.atoms:
            return self.atoms[txt]
        if isinstance(e, ast.Name):
            if e.id in self.locals:
                return self.locals[e.id]
            if e.id == "None":
                return Val(NONE, "c")
        if isinstance(e, ast.Constant) and e.value is None:
            return Val(NONE, "c")
        c = self.const(e)
        if c is not None:
            return Val(("c", c), "c")
        if isinstance(e, ast.Call):
            cn = _cast_name(e.func)
            if cn is not None and len(e.args) == 1 and not e.keywords:
                inner = e.args[0]
                # int(a / b): truncating division
                if cn == "int" and isinstance(inner, ast.BinOp) and isinstance(inner.op, ast.Div):
                    l, r = self.ev(inner.left), self.ev(inner.right)
                    return Val(("op", "tdiv", (self._sg(l), self._sg(r))), l.sign)
                v = self.ev(inner)
                if cn == "int":
                    return v
                if cn in CASTS_SIGN:
                    return Val(v.t, CASTS_SIGN[cn], True)
                kind, w = NARROW[cn]
                if _is_imm(v.t) and (kind == "sext" or self.imm_nonneg) and w >= 16:
                    # I/S immediates are 12 bits wide: a *signed* 16-bit cast is the identity; an unsigned one
                    # only for formats whose immediate is never negative (shift amounts)
                    return Val(v.t, "s" if kind == "sext" else v.sign, v.wrapped)
                if kind == "trunc" and v.t[0] == "op" and v.t[1] == f"trunc{w}":
                    return v
                if kind == "trunc" and v.t[0] == "op" and v.t[1] == f"mem{w // 8}":
                    return Val(v.t, "u")  # zero-extension of an already w-bit value
                return Val(("op", f"{kind}{w}", (v.t,)), "s" if kind == "sext" else "u")
            fn = ast.unparse(e.func)
            if fn.endswith(".memory.read_byte") or fn.endswith(".memory.read_halfword") or fn.endswith(".memory.read_word"):
                w = {"read_byte": 1, "read_halfword": 2, "read_word": 4}[fn.split(".")[-1]]
                return Val(("op", f"mem{w}", (self._addr(e.args[0]),)), "u", True)
            if fn == "pow":
                raise Unrecognised(f"call {txt[:50]}")
            raise Unrecognised(f"call {txt[:50]}")
        if isinstance(e, ast.Subscript) and isinstance(e.slice, ast.Slice) and e.slice.lower is None and e.slice.step is None:
            hi = self.const(e.slice.upper) if e.slice.upper is not None else None
            base = self.ev(e.value)
            if hi in (8, 16):
                return Val(("op", f"trunc{hi}", (base.t,)), "u")
            raise Unrecognised(f"slice {txt[:50]}")
        if isinstance(e, ast.BinOp) and type(e.op) in OPS:
            op = OPS[type(e.op)]
            l, r = self.ev(e.left), self.ev(e.right)
            if op == "div":
                raise Unrecognised("true division outside int(..)")
            # shift amount / mask normalisation
            if op == "mod" and r.t == ("c", 32):
                return Val(("op", "mod32", (l.t,)), "u")
            if op == "and" and r.t == ("c", 31):
                return Val(("op", "mod32", (l.t,)), "u")
            wrapped = False
            if op == "and":
                for a, b in ((l, r), (r, l)):
                    if b.t[0] == "c":
                        m = b.t[1]
                        if a.wrapped:
                            m &= 0xFFFFFFFF
                        if 2 ** 31 <= m < 2 ** 32 or (a.wrapped and 0 <= m < 2 ** 32):
                            wrapped = True
                        return Val(("op", "and", _sorted((a.t, ("c", m)))), "u" if wrapped else a.sign, wrapped)
            if op in ("add", "sub", "mul", "xor", "or", "and", "shl"):
                kids = (l.t, r.t)
                if op in COMM:
                    kids = _sorted(kids)
                sign = l.sign if l.sign in ("s", "u") else r.sign
                if op == "mul":
                    # keep operand signs: they matter if the high half is taken
                    return Val(("op", "mul", _sorted((self._sg(l), self._sg(r)))), sign)
                return Val(("op", op, kids), sign, (l.wrapped and r.wrapped and False))
            if op == "shr":
                if r.t == ("c", 32) and l.t[0] == "op" and l.t[1] == "mul":
                    return Val(("op", "mulh", l.t[2]), l.sign)
                return Val(("op", "shr", (self._sg(l), r.t)), l.sign)
            if op in ("fdiv", "mod"):
                return Val(("op", op, (self._sg(l), self._sg(r))), l.sign)
        if isinstance(e, ast.Compare) and len(e.ops) == 1 and type(e.ops[0]) in CMPS:
            op = CMPS[type(e.ops[0])]
            l, r = self.ev(e.left), self.ev(e.comparators[0])
            if op in ("eq", "ne"):
                return Val(("op", op, _sorted((l.t, r.t))), "c")
            if op == "gt":
                op, l, r = "lt", r, l
            elif op == "le":
                op, l, r = "ge", r, l
            return Val(("op", op, (self._sg(l), self._sg(r))), "c")
        if isinstance(e, ast.IfExp):
            c, a, b = self.ev(e.test), self.ev(e.body), self.ev(e.orelse)
            return Val(("op", "ite", (c.t, a.t, b.t)), a.sign)
        if isinstance(e, ast.UnaryOp) and isinstance(e.op, ast.USub):
            v = self.ev(e.operand)
            if v.t[0] == "c":
                return Val(("c", -v.t[1]), "c")
        if isinstance(e, ast.UnaryOp) and isinstance(e.op, ast.Invert):
            v = self.ev(e.operand)
            if v.t[0] == "c":
                return Val(("c", ~v.t[1]), "c")
        if isinstance(e, ast.UnaryOp) and isinstance(e.op, ast.Not):
            v = self.ev(e.operand)
            return Val(("op", "not", (v.t,)), "c")
        if isinstance(e, ast.Tuple):
            return Val(("op", "tuple", tuple(self.ev(x).t for x in e.elts)), "c")
        if isinstance(e, ast.BoolOp):
            vals = tuple(self.ev(v).t for v in e.values)
            return Val(("op", "and_" if isinstance(e.op, ast.And) else "or_", vals), "c")
        raise Unrecognised(f"expression {txt[:60]}")

    def _sg(self, v: Val) -> T:
        """Operand annotated with its signedness (for sign-sensitive operators)."""
        if v.t[0] == "c":
            return v.t
        return ("op", "sg:" + v.sign, (v.t,))

    def _addr(self, e: ast.AST) -> T:
        return self.ev(e).t


def _is_imm(t: T) -> bool:
    return t == ("a", "IMM")


def _sorted(kids: tuple) -> tuple:
    return tuple(sorted(kids, key=repr))


def render(t: T) -> str:
    if t[0] == "a":
        return t[1]
    if t[0] == "c":
        v = t[1]
        return hex(v) if v > 4096 else str(v)
    if t[0] == "none":
        return "None"
    name, kids = t[1], t[2]
    if name.startswith("sg:"):
        s = name[3:]
        return ("" if s == "c" else s + ":") + render(kids[0])
    if name == "trem":
        return f"trem({render(kids[0])},{render(kids[1])})"
    return f"{name}({','.join(render(k) for k in kids)})"


def simplify(t: T) -> T:
    """Pattern normalisation: n - tdiv(n,b)*b -> trem(n,b); drop sign tags where irrelevant."""
    if t[0] != "op":
        return t
    name, kids = t[1], tuple(simplify(k) for k in t[2])
    if name == "sub" and len(kids) == 2 and kids[1][0] == "op" and kids[1][1] == "mul":
        n = kids[0]
        for a, b in (kids[1][2], kids[1][2][::-1]):
            a0 = _strip_sg(a)
            if a0[0] == "op" and a0[1] == "tdiv":
                x, y = a0[2]
                if _strip_sg(x) == _strip_sg(n) and _strip_sg(y) == _strip_sg(b):
                    return ("op", "trem", (x, y))
    if name in ("add", "sub", "and", "or", "xor", "shl", "eq", "ne", "mod32", "ite", "not", "mem1", "mem2", "mem4",
                "sext8", "sext16", "trunc8", "trunc16", "tuple"):
        kids = tuple(_strip_sg(k) for k in kids)
        if name in COMM:
            kids = _sorted(kids)
    if name == "mul":
        # plain product (low 32 bits): signs irrelevant
        kids = _sorted(tuple(_strip_sg(k) for k in kids))
    if name == "mulh":
        kids = _sorted(kids)
    return ("op", name, kids)


def _strip_sg(t: T) -> T:
    while t[0] == "op" and t[1].startswith("sg:"):
        t = t[2][0]
    return t


def show(v: Union[Val, T]) -> str:
    t = v.t if isinstance(v, Val) else v
    return render(simplify(t))


# ------------------------------------------------------------ behaviour side
BEH_ATOMS = {
    "architectural_state.register_file.registers[self.rs1]": Val(("a", "RS1"), "u", True),
    "architectural_state.register_file.registers[self.rs2]": Val(("a", "RS2"), "u", True),
    "self.imm": Val(("a", "IMM"), "r"),
    "architectural_state.program_counter": Val(("a", "PC"), "r"),
    "self.length": Val(("c", 4), "c"),  # RiscvInstruction.length, checked to fold to 4 by R01.len
}


@dataclass
class Case:
    conds: frozenset
    effects: dict  # 'rd' -> str, 'pc' -> (str, wrapped), 'mem' -> (w, addr, val), 'cnt' -> set

    def describe(self) -> str:
        c = " & ".join(sorted(self.conds)) or "always"
        e = []
        for k in sorted(self.effects):
            e.append(f"{k}={self.effects[k]}")
        return f"[{c}] " + "; ".join(e)


def _cond_str(ex: Extractor, test: ast.AST, pol: bool) -> Optional[str]:
    try:
        v = ex.ev(test)
    except Unrecognised:
        return None
    s = show(v)
    return s if pol else f"not({s})"


def behavior_cases(model: Model, c: ClassInfo) -> list[Case]:
    f = model.lookup(c, "behavior")
    if f is None:
        raise AnalysisError(f"{c.name}: no behavior()")
    out = []
    for p in function_paths(f.node):
        if p.term == "raise":
            continue
        ex = Extractor(model, f, BEH_ATOMS)
        conds = set()
        eff: dict = {}
        cnt = set()
        for e in p.events:
            n = e.node
            if e.kind == "test":
                s = _cond_str(ex, n, bool(e.pol))
                if s is None:
                    raise Unrecognised(f"condition {ast.unparse(n)[:50]}")
                conds.add(s)
            elif e.kind == "stmt":
                if isinstance(n, ast.Assign) and len(n.targets) == 1:
                    t = n.targets[0]
                    tt = ast.unparse(t)
                    if isinstance(t, ast.Name):
                        ex.locals[t.id] = ex.ev(n.value)
                    elif tt == "architectural_state.register_file.registers[self.rd]":
                        eff["rd_val"] = ex.ev(n.value)
                    elif tt == "architectural_state.program_counter":
                        v = ex.ev(n.value)
                        eff["pc"] = ("abs", show(v), _wrapped_pc(v))
                    else:
                        raise Unrecognised(f"store {tt[:50]}")
                elif isinstance(n, ast.AugAssign):
                    tt = ast.unparse(n.target)
                    if tt == "architectural_state.program_counter" and isinstance(n.op, ast.Add):
                        v = ex.ev(n.value)
                        eff["pc"] = ("rel", show(v), _wrapped_pc(v))
                    elif tt.startswith("architectural_state.performance_metrics.") and isinstance(n.op, ast.Add) and ast.unparse(n.value) == "1":
                        cnt.add(tt.split(".")[-1])
                    else:
                        raise Unrecognised(f"augmented store {tt[:50]}")
                elif isinstance(n, ast.Expr) and isinstance(n.value, ast.Call):
                    fn = ast.unparse(n.value.func)
                    if fn.endswith(".memory.write_byte") or fn.endswith(".memory.write_halfword") or fn.endswith(".memory.write_word"):
                        w = {"write_byte": 1, "write_halfword": 2, "write_word": 4}[fn.split(".")[-1]]
                        a, v = n.value.args[0], n.value.args[1]
                        eff["mem"] = (w, show(ex.ev(a)), show(ex.ev(v)))
                    elif fn.split(".")[-1] in ("read_byte", "read_halfword", "read_word") and ".memory." in fn:
                        continue  # a discarded read changes no register / memory / pc (its accounting is C09's business)
                    else:
                        raise Unrecognised(f"call {fn[:50]}")
                else:
                    raise Unrecognised(f"statement {ast.unparse(n)[:50]}")
        if cnt:
            eff["cnt"] = tuple(sorted(cnt))
        rdv = eff.pop("rd_val", None)
        if rdv is not None:
            for cs, v in _expand_ite(frozenset(conds), rdv):
                e2 = dict(eff)
                e2["rd"] = show(v)
                out.append(Case(frozenset(cs), e2))
        else:
            out.append(Case(frozenset(conds), eff))
    return out


def _wrapped_pc(v: Val) -> bool:
    """Does the pc-target expression pass a 32-bit wrap of the operand sum?"""
    t = v.t

    def has(t: T) -> bool:
        if t[0] != "op":
            return False
        if t[1] == "and" and any(k[0] == "c" and 2 ** 31 <= k[1] < 2 ** 32 for k in t[2]):
            return True
        return any(has(k) for k in t[2])

    return v.wrapped or has(t)


# -------------------------------------------------------------- pipeline side
ARF_ATOMS = dict(BEH_ATOMS)
ARF_ATOMS.update({"self.rs1": Val(("a", "rs1"), "c"), "self.rs2": Val(("a", "rs2"), "c"), "self.rd": Val(("a", "rd"), "c")})


def _single_return(f: FuncInfo) -> ast.AST:
    rets = [n for n in walk_no_nested(f.node) if isinstance(n, ast.Return)]
    if len(rets) != 1 or rets[0].value is None:
        raise Unrecognised(f"{f.qname}: expected a single return")
    return rets[0].value


def control_signals(model: Model, c: ClassInfo) -> dict:
    f = model.lookup(c, "control_unit_signals")
    if f is None:
        raise AnalysisError(f"{c.name}: no control_unit_signals()")
    r = _single_return(f)
    if not (isinstance(r, ast.Call) and ast.unparse(r.func) == "ControlUnitSignals"):
        raise Unrecognised(f"{f.qname}: not a ControlUnitSignals(..) literal")
    out = {k: None for k in ("alu_src_1", "alu_src_2", "wb_src", "reg_write", "mem_read", "mem_write", "branch", "jump", "alu_op", "alu_to_pc")}
    for k in r.keywords:
        if not isinstance(k.value, ast.Constant):
            raise Unrecognised(f"{f.qname}: non-constant control signal {k.arg}")
        out[k.arg] = k.value.value
    return out


def _prune_none(facts: set, env: dict[str, Val]) -> Optional[bool]:
    """Is a path with these facts feasible given which parameters are None? None = unknown facts ignored."""
    for a, v in facts:
        if a.startswith("None is "):
            name = a[len("None is "):]
            if name in env:
                is_none = env[name].t == NONE
                if is_none != v:
                    return False
    return True


def _eval_none_test(e: ast.AST, atoms: dict[str, Val]) -> Optional[bool]:
    """Evaluate a test made only of `<param> is [not] None` atoms, given which parameters are None."""
    if isinstance(e, ast.BoolOp):
        vals = [_eval_none_test(v, atoms) for v in e.values]
        if any(v is None for v in vals):
            return None
        return all(vals) if isinstance(e.op, ast.And) else any(vals)
    if isinstance(e, ast.UnaryOp) and isinstance(e.op, ast.Not):
        v = _eval_none_test(e.operand, atoms)
        return None if v is None else not v
    if isinstance(e, ast.Compare) and len(e.ops) == 1 and isinstance(e.ops[0], (ast.Is, ast.IsNot)) \
            and isinstance(e.comparators[0], ast.Constant) and e.comparators[0].value is None:
        t = ast.unparse(e.left)
        if t in atoms:
            isnone = atoms[t].t == NONE
            return isnone if isinstance(e.ops[0], ast.Is) else not isnone
    return None


def _fn_cases(model: Model, f: FuncInfo, atoms: dict[str, Val]):
    """(conds, return Val | None, effects) per feasible non-raising path of a small method."""
    out = []
    for p in function_paths(f.node):
        if p.term == "raise":
            continue
        ex = Extractor(model, f, atoms)
        facts: set = set()
        conds = set()
        eff: dict = {}
        ret: Optional[Val] = None
        feasible = True
        for e in p.events:
            n = e.node
            if e.kind == "test":
                tv = _eval_none_test(n, atoms)
                if tv is not None:
                    if tv != bool(e.pol):
                        feasible = False
                        break
                    continue
                fs = facts_of(n, bool(e.pol))
                facts |= fs
                s = _cond_str(ex, n, bool(e.pol))
                if s is None:
                    raise Unrecognised(f"{f.qname}: condition {ast.unparse(n)[:50]}")
                conds.add(s)
            elif e.kind == "assert":
                continue
            elif e.kind == "stmt":
                if isinstance(n, ast.Assign) and len(n.targets) == 1 and isinstance(n.targets[0], ast.Name):
                    ex.locals[n.targets[0].id] = ex.ev(n.value)
                elif isinstance(n, ast.Assign) and len(n.targets) == 1:
                    eff[ast.unparse(n.targets[0])] = ex.ev(n.value)
                elif isinstance(n, ast.Expr) and isinstance(n.value, ast.Call):
                    fn = ast.unparse(n.value.func)
                    if fn.split(".")[-1] in ("write_byte", "write_halfword", "write_word") and ".memory." in fn:
                        w = {"write_byte": 1, "write_halfword": 2, "write_word": 4}[fn.split(".")[-1]]
                        eff["mem"] = (w, ex.ev(n.value.args[0]), ex.ev(n.value.args[1]))
                    else:
                        raise Unrecognised(f"{f.qname}: call {fn[:50]}")
                elif isinstance(n, ast.Pass):
                    continue
                else:
                    raise Unrecognised(f"{f.qname}: statement {ast.unparse(n)[:50]}")
            elif e.kind == "return":
                ret = ex.ev(n.value) if n.value is not None else Val(NONE, "c")
        if feasible:
            out.append((frozenset(conds), ret, eff))
    return out


def _expand_ite(conds: frozenset, v: Val):
    t = v.t
    if t[0] == "op" and t[1] == "ite":
        c, a, b = t[2]
        cs = render(simplify(c))
        yield from _expand_ite(conds | {cs}, Val(a, v.sign, v.wrapped))
        yield from _expand_ite(conds | {f"not({cs})"}, Val(b, v.sign, v.wrapped))
    else:
        yield conds, v


def pipeline_cases(model: Model, c: ClassInfo) -> list[Case]:
    arf = model.lookup(c, "access_register_file")
    alu = model.lookup(c, "alu_compute")
    mem = model.lookup(c, "memory_access")
    wb = model.lookup(c, "write_back")
    gwr = model.lookup(c, "get_write_register")
    if None in (arf, alu, mem, wb, gwr):
        raise AnalysisError(f"{c.name}: pipeline interface incomplete")
    ctrl = control_signals(model, c)
    ex = Extractor(model, arf, ARF_ATOMS)
    tup = _single_return(arf)
    if not (isinstance(tup, ast.Tuple) and len(tup.elts) == 5):
        raise Unrecognised(f"{arf.qname}: not a 5-tuple")
    a1, a2, d1, d2, imm = [ex.ev(x) for x in tup.elts]
    pc = Val(("a", "PC"), "r")
    # EX stage muxes
    if ctrl["alu_src_1"] is None:
        A1 = Val(NONE, "c")
    else:
        A1 = d1 if ctrl["alu_src_1"] else pc
    A2 = imm if ctrl["alu_src_2"] else d2
    wr = _single_return(gwr)
    writes_rd = ast.unparse(wr) == "self.rd"
    wb_stores = any(isinstance(n, ast.Assign) and "registers[write_register]" in ast.unparse(n.targets[0]) for n in walk_no_nested(wb.node))
    out = []
    for aconds, aret, _ in _fn_cases(model, alu, {"alu_in_1": A1, "alu_in_2": A2}):
        if aret is None or not (aret.t[0] == "op" and aret.t[1] == "tuple" and len(aret.t[2]) == 2):
            raise Unrecognised(f"{alu.qname}: does not return (comparison, result)")
        cmp_t, res_t = aret.t[2]
        for conds, res in _expand_ite(aconds, Val(res_t, "r")):
            for mconds, mret, meff in _fn_cases(model, mem, {"memory_address": res, "memory_write_data": d2,
                                                              "update_statistics": Val(("a", "STAT"), "c")}):
                eff: dict = {}
                allc = set(conds) | set(mconds)
                if "mem" in meff:
                    w, a, v = meff["mem"]
                    eff["mem"] = (w, show(a), show(v))
                # write-back mux
                src = ctrl["wb_src"]
                val: Optional[Val] = None
                if src == 0:
                    val = Val(("op", "add", _sorted((("a", "PC"), ("c", 4)))), "r")
                elif src == 1:
                    val = mret
                elif src == 2:
                    val = res
                elif src == 3:
                    val = imm
                if wb_stores and writes_rd:
                    eff["rd"] = show(val) if val is not None and val.t != NONE else "None!"
                elif wb_stores != writes_rd:
                    eff["rd"] = f"inconsistent(write_back stores={wb_stores}, get_write_register={ast.unparse(wr)})"
                # redirect
                target = None
                if ctrl["jump"]:
                    target = ("op", "add", _sorted((imm.t, ("a", "PC"))))
                    tv = Val(target, "r")
                    eff["pc"] = (show(tv), False)
                    if c.name == "JAL":
                        eff["cnt"] = ("procedure_count",)
                    out.append(Case(frozenset(allc), eff))
                elif ctrl["branch"]:
                    cs = render(simplify(cmp_t))
                    taken = dict(eff)
                    taken["pc"] = (show(Val(("op", "add", _sorted((imm.t, ("a", "PC")))), "r")), False)
                    taken["cnt"] = ("branch_count",)
                    out.append(Case(frozenset(allc | {cs}), taken))
                    out.append(Case(frozenset(allc | {f"not({cs})"}), dict(eff)))
                elif ctrl["alu_to_pc"]:
                    eff["pc"] = (show(res), _wrapped_pc(res))
                    out.append(Case(frozenset(allc), eff))
                else:
                    out.append(Case(frozenset(allc), eff))
    return out


def behavior_net(case: Case) -> Case:
    """Single-cycle case with the pc effect rewritten as the *net* target after the stage
    has added the instruction length (SingleStage: pc += length after behavior())."""
    eff = dict(case.effects)
    if "pc" in eff:
        kind, s, w = eff["pc"]
        if kind == "rel" and s.startswith("sub(") and s.endswith(",4)"):
            inner = s[4:-3]
            eff["pc"] = (f"add({','.join(sorted([inner, 'PC']))})" if "(" not in inner else f"add(PC,{inner})", w)
        elif kind == "abs" and s.startswith("sub(") and s.endswith(",4)"):
            eff["pc"] = (s[4:-3], w)
        else:
            eff["pc"] = (f"uncompensated:{kind}:{s}", w)
    return Case(case.conds, eff)
