"""The checker tested both ways, statically.

Each variant is a source edit applied *in memory* (a Model overlay: nothing is
written to disk, nothing is executed) and analysed like the real tree:
  fire    the edit breaks the property  -> the named rule must report it
  silent  the edit preserves behaviour  -> the property's check must stay quiet
A variant whose anchor text no longer occurs in /repo is skipped and counted
(the tree has moved on; the floor below keeps the table from going vacuous).
"""
from __future__ import annotations

import json
import os
import sys
from concurrent.futures import ProcessPoolExecutor
from typing import Optional

from .model import repo_root

HERE = os.path.dirname(os.path.abspath(__file__))


def load_variants() -> list[dict]:
    from .variants import all_variants
    return all_variants()


def _unused_load() -> list[dict]:
    with open(os.path.join(HERE, "variants.json"), encoding="utf-8") as fh:
        return json.load(fh)


def _apply(v: dict) -> Optional[dict]:
    overlay = {}
    edits = v.get("edits") or [{"file": v["file"], "old": v["old"], "new": v["new"], "all": v.get("all")}]
    for ed in edits:
        rel = ed["file"]
        src = overlay.get(rel)
        if src is None:
            with open(os.path.join(repo_root(), rel), encoding="utf-8") as fh:
                src = fh.read()
        if src.count(ed["old"]) < 1:
            return None
        if ed.get("all"):
            src = src.replace(ed["old"], ed["new"])
        else:
            src = src.replace(ed["old"], ed["new"], 1)
        overlay[rel] = src
    return overlay


def run_variant(v: dict) -> dict:
    from .main import run_property

    overlay = _apply(v)
    if overlay is None:
        return {"id": v["id"], "status": "skipped", "why": "anchor text not present"}
    out: dict = {}
    rc = run_property(v["prop"], "quick", overlay=overlay, quiet=True, out=out)
    rules = sorted({f.rule for f in out.get("findings", [])})
    keys = [f.fkey for f in out.get("findings", [])][:4]
    res = {"id": v["id"], "rc": rc, "rules": rules, "keys": keys, "error": out.get("error")}
    if v["expect"] == "fire":
        ok = rc == 1 and (v.get("rule") is None or v["rule"] in rules)
    else:
        ok = rc == 0
    res["status"] = "ok" if ok else "FAILED"
    return res


def run_for(prop: Optional[str], jobs: int = 16, verbose: bool = False) -> int:
    vs = [v for v in load_variants() if prop is None or v["prop"] == prop]
    if not vs:
        print(f"SELFTEST property={prop} no variants")
        return 0
    with ProcessPoolExecutor(max_workers=min(jobs, len(vs))) as ex:
        results = list(ex.map(run_variant, vs))
    bad = [r for r in results if r["status"] == "FAILED"]
    skipped = [r for r in results if r["status"] == "skipped"]
    fired = sum(1 for v, r in zip(vs, results) if v["expect"] == "fire" and r["status"] == "ok")
    silent = sum(1 for v, r in zip(vs, results) if v["expect"] == "silent" and r["status"] == "ok")
    print(f"SELFTEST property={prop} variants={len(vs)} fired={fired} silent={silent} "
          f"skipped={len(skipped)} failed={len(bad)}")
    if verbose:
        for v, r in zip(vs, results):
            print("  ", r["status"], v["id"], v["expect"], v.get("rule"), r.get("rules"), r.get("error") or "")
    for r in bad:
        v = next(x for x in vs if x["id"] == r["id"])
        print(f"ANALYSIS-ERROR property={v['prop']} selftest variant {r['id']} expected {v['expect']}"
              f" ({v.get('rule')}): rc={r['rc']} rules={r['rules']} error={r.get('error')}")
    if bad:
        return 2
    if len(skipped) > len(vs) // 2:
        print(f"ANALYSIS-ERROR property={prop} selftest: {len(skipped)}/{len(vs)} variants lost their anchors")
        return 2
    # record in the evidence file what the self-test covered
    ev = os.path.join(os.path.dirname(HERE), "evidence", f"{prop}.json")
    if prop and os.path.exists(ev):
        with open(ev, encoding="utf-8") as fh:
            d = json.load(fh)
        d["coverage"]["selftest"] = {"variants": len(vs), "must_fire_ok": fired, "must_stay_silent_ok": silent,
                                     "skipped": [r["id"] for r in skipped]}
        with open(ev, "w", encoding="utf-8") as fh:
            json.dump(d, fh, indent=1)
            fh.write("\n")
    return 0


if __name__ == "__main__":
    sys.path.insert(0, os.path.dirname(HERE))
    p = sys.argv[1] if len(sys.argv) > 1 and sys.argv[1] != "all" else None
    sys.exit(run_for(p, verbose=True))
