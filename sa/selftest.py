"""The checker tested both ways, statically.

Each variant is a source edit applied *in memory* (a Model overlay: nothing is
written to disk, nothing is executed) and analysed like the real tree:
  fire    the edit breaks the property  -> the named rule must report it
  silent  the edit preserves behaviour  -> the property's check must stay quiet
A variant whose anchor text no longer occurs in /repo is skipped and counted
(the tree has moved on; the floor below keeps the table from going vacuous).
"""
from __future__ import annotations

import json
import os
import sys
from concurrent.futures import ProcessPoolExecutor
from typing import Optional

from .model import repo_root

HERE = os.path.dirname(os.path.abspath(__file__))


def load_variants() -> list[dict]:
    from .variants import all_variants
    return all_variants()


def _unused_load() -> list[dict]:
    with open(os.path.join(HERE, "variants.json"), encoding="utf-8") as fh:
        return json.load(fh)


def _apply(v: dict) -> Optional[dict]:
    overlay = {}
    edits = v.get("edits") or [{"file": v["file"], "old": v["old"], "new": v["new"], "all": v.get("all")}]
    for ed in edits:
        rel = ed["file"]
        src = overlay.get(rel)
        if src is None:
            with open(os.path.join(repo_root(), rel), encoding="utf-8") as fh:
                src = fh.read()
        if src.count(ed["old"]) < 1:
            return None
        if ed.get("all"):
            src = src.replace(ed["old"], ed["new"])
        else:
            src = src.replace(ed["old"], ed["new"], 1)
        overlay[rel] = src
    return overlay


def apply_patch_text(diff: str, read) -> Optional[dict]:
    """Apply a unified (git) diff in memory: -> {relpath: new text}, or None when a hunk's old side is not in the tree.
    `read(relpath)` returns the current text (None: file absent).  New files are created; nothing touches the disk."""
    overlay: dict = {}
    files: list = []
    cur = None
    for line in diff.splitlines():
        if line.startswith("diff --git"):
            cur = {"old": None, "new": None, "hunks": []}
            files.append(cur)
        elif cur is not None and line.startswith("--- "):
            cur["old"] = None if line[4:].strip() == "/dev/null" else line[4:].strip()[2:]
        elif cur is not None and line.startswith("+++ "):
            cur["new"] = None if line[4:].strip() == "/dev/null" else line[4:].strip()[2:]
        elif cur is not None and line.startswith("@@"):
            cur["hunks"].append({"start": int(line.split()[1].split(",")[0].lstrip("-")), "lines": []})
        elif cur is not None and cur["hunks"] and (line[:1] in (" ", "+", "-") or line == ""):
            cur["hunks"][-1]["lines"].append(line if line else " ")
        elif line.startswith("\\"):
            continue
    for f in files:
        rel = f["new"] or f["old"]
        if rel is None:
            continue
        src = overlay.get(rel)
        if src is None:
            src = read(f["old"]) if f["old"] else ""
        if src is None:
            return None
        lines = src.split("\n")
        shift = 0
        for h in f["hunks"]:
            old_blk = [l[1:] for l in h["lines"] if l[:1] in (" ", "-")]
            new_blk = [l[1:] for l in h["lines"] if l[:1] in (" ", "+")]
            at = h["start"] - 1 + shift
            if lines[at:at + len(old_blk)] != old_blk:
                at = next((i for i in range(len(lines) - len(old_blk) + 1) if lines[i:i + len(old_blk)] == old_blk), -1)
                if at < 0 or not old_blk:
                    if not old_blk and not f["old"]:
                        at = 0
                    else:
                        return None
            lines[at:at + len(old_blk)] = new_blk
            shift += len(new_blk) - len(old_blk)
        overlay[rel] = "\n".join(lines)
    return overlay


def corpus_variants(prop: Optional[str]) -> list[dict]:
    """The stored seeded corpus as variants: seeded/<P>-k (must fire in P's own check) and seeded/refactors/<P>-rk
    (behaviour-preserving: P's check must stay silent)."""
    import glob
    root = os.path.join(os.path.dirname(HERE), "seeded")
    out = []
    for d in sorted(glob.glob(os.path.join(root, "C*"))):
        mp = os.path.join(d, "meta.json")
        if not os.path.exists(mp):
            continue
        with open(mp, encoding="utf-8") as fh:
            m = json.load(fh)
        if prop is None or m["breaks_property"] == prop:
            out.append({"id": "seed:" + m["id"], "prop": m["breaks_property"], "expect": "fire", "rule": None, "patch": os.path.join(d, "patch.diff")})
    for d in sorted(glob.glob(os.path.join(root, "refactors", "C*"))):
        mp = os.path.join(d, "meta.json")
        if not os.path.exists(mp):
            continue
        with open(mp, encoding="utf-8") as fh:
            m = json.load(fh)
        if prop is None or m["written_for_property"] == prop:
            # a refactoring recorded as a known limit of the normal forms (DESIGN section 15.5) is run and reported, not judged
            out.append({"id": "refactor:" + m["id"], "prop": m["written_for_property"], "expect": "known-limit" if m.get("known_limit") else "silent",
                        "rule": None, "patch": os.path.join(d, "patch.diff")})
    return out


def run_variant(v: dict) -> dict:
    from .main import run_property

    if "patch" in v:
        def read(rel):
            pth = os.path.join(repo_root(), rel)
            if not os.path.exists(pth):
                return None
            with open(pth, encoding="utf-8") as fh:
                return fh.read()
        with open(v["patch"], encoding="utf-8") as fh:
            overlay = apply_patch_text(fh.read(), read)
    else:
        overlay = _apply(v)
    if overlay is None:
        return {"id": v["id"], "status": "skipped", "why": "anchor text not present"}
    out: dict = {}
    rc = run_property(v["prop"], "quick", overlay=overlay, quiet=True, out=out)
    rules = sorted({f.rule for f in out.get("findings", [])})
    keys = [f.fkey for f in out.get("findings", [])][:4]
    res = {"id": v["id"], "rc": rc, "rules": rules, "keys": keys, "error": out.get("error")}
    if v["expect"] == "fire":
        ok = rc == 1 and (v.get("rule") is None or v["rule"] in rules)
    elif v["expect"] == "known-limit":
        ok = rc in (0, 1, 2)  # a recorded limit (DESIGN 15.5 / 16.5 / 17.4) is run and reported, not judged: an alarm or a fail-closed analysis error
    else:
        ok = rc == 0
    res["status"] = "ok" if ok else "FAILED"
    return res


def run_for(prop: Optional[str], jobs: int = 16, verbose: bool = False) -> int:
    vs = [v for v in load_variants() if prop is None or v["prop"] == prop] + corpus_variants(prop)
    if not vs:
        print(f"SELFTEST property={prop} no variants")
        return 0
    with ProcessPoolExecutor(max_workers=min(jobs, len(vs))) as ex:
        results = list(ex.map(run_variant, vs))
    bad = [r for r in results if r["status"] == "FAILED"]
    skipped = [r for r in results if r["status"] == "skipped"]
    fired = sum(1 for v, r in zip(vs, results) if v["expect"] == "fire" and r["status"] == "ok")
    silent = sum(1 for v, r in zip(vs, results) if v["expect"] == "silent" and r["status"] == "ok")
    print(f"SELFTEST property={prop} variants={len(vs)} fired={fired} silent={silent} "
          f"skipped={len(skipped)} failed={len(bad)}")
    if verbose:
        for v, r in zip(vs, results):
            print("  ", r["status"], v["id"], v["expect"], v.get("rule"), r.get("rules"), r.get("error") or "")
    for r in bad:
        v = next(x for x in vs if x["id"] == r["id"])
        print(f"ANALYSIS-ERROR property={v['prop']} selftest variant {r['id']} expected {v['expect']}"
              f" ({v.get('rule')}): rc={r['rc']} rules={r['rules']} error={r.get('error')}")
    if bad:
        return 2
    if len(skipped) > len(vs) // 2:
        print(f"ANALYSIS-ERROR property={prop} selftest: {len(skipped)}/{len(vs)} variants lost their anchors")
        return 2
    # record in the evidence file what the self-test covered
    ev = os.path.join(os.path.dirname(HERE), "evidence", f"{prop}.json")
    if prop and os.path.exists(ev):
        with open(ev, encoding="utf-8") as fh:
            d = json.load(fh)
        d["coverage"]["selftest"] = {"variants": len(vs), "must_fire_ok": fired, "must_stay_silent_ok": silent,
                                     "skipped": [r["id"] for r in skipped]}
        with open(ev, "w", encoding="utf-8") as fh:
            json.dump(d, fh, indent=1)
            fh.write("\n")
    return 0


if __name__ == "__main__":
    sys.path.insert(0, os.path.dirname(HERE))
    p = sys.argv[1] if len(sys.argv) > 1 and sys.argv[1] != "all" else None
    sys.exit(run_for(p, verbose=True))
