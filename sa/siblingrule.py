"""Width-sibling agreement: the byte / half-word / word variants of one access method must be
the same code up to the width-specific names (and the boundary guard the byte variant needs not)."""
from __future__ import annotations

import ast
import re

from .model import AnalysisError
from .report import Ctx

SUBS = [(r"\bhalfword\b", "W"), (r"\bbyte\b", "W"), (r"\bword\b", "W"),
        (r"read_(byte|halfword|word)", "read_W"), (r"write_(byte|halfword|word)", "write_W"),
        (r"(byte|halfword|word)_into_block", "W_into_block"), (r"(byte|halfword|word)_from_block", "W_from_block"),
        (r"UInt(8|16|32)", "UIntW")]


ACCT = ("self.hits", "self.accesses", "self.last_was_hit", "performance_metrics.cycles", "miss_penality")


def _norm(f, mode: str = "all") -> str:
    body = [st for st in f.node.body if not (isinstance(st, ast.Expr) and isinstance(st.value, ast.Constant))]
    # drop the word-boundary guard (only the multi-byte variants have / need one)
    body = [st for st in body if not (isinstance(st, ast.If) and "byte_offset" in ast.unparse(st.test)
                                      and st.body and isinstance(st.body[-1], ast.Raise))]
    # multiset of statements, each tagged with its nesting (the guard structure it sits under): moving a
    # statement relative to its neighbours in one sibling changes nothing here; moving it into / out of a
    # branch, dropping, adding or altering it does
    lines = []
    for ln in _block(body):
        is_acct = any(t in ln for t in ACCT) or ln.strip() in ("if not hit:", "if hit:", "if update_statistics:") or ln.strip().startswith("hit =")
        if mode == "data" and is_acct:
            continue
        if mode == "accounting" and not (is_acct or "directly_write_to_lower_memory" in ln or ln.strip().startswith("return")):
            continue
        if mode == "data":
            ln = ln.lstrip()  # nesting under the statistics flag is irrelevant to what is read / written
        for pat, rep in SUBS:
            ln = re.sub(pat, rep, ln)
        lines.append(ln)
    return "\n".join(sorted(lines))


def _block(stmts) -> list[str]:
    """Statements of a block; runs of simple statements are compared as multisets (their relative order
    inside one sibling may differ without changing what is done), compound statements keep their place."""
    out: list[str] = []
    run: list[str] = []
    for st in stmts:
        if isinstance(st, (ast.If, ast.For, ast.While, ast.Try, ast.With)):
            out += sorted(run)
            run = []
            if isinstance(st, ast.If):
                out.append("if " + ast.unparse(st.test) + ":")
                out += ["    " + x for x in _block(st.body)]
                if st.orelse:
                    out.append("else:")
                    out += ["    " + x for x in _block(st.orelse)]
            else:
                out.append(ast.unparse(st))
        else:
            run.append(ast.unparse(st))
    out += sorted(run)
    return out


def sibling_rule(ctx: Ctx, rid: str, groups=None, mode: str = "all") -> None:
    m = ctx.model
    r = ctx.rule(rid, "byte/half-word/word variants of an access method are the same code up to width names")
    groups = groups or [("BaseCacheMemorySystem", "read"), ("WriteBackMemorySystem", "write"), ("WriteThroughMemorySystem", "write")]
    for cn, kind in groups:
        fs = [m.method(cn, f"{kind}_{w}", own=True) for w in ("byte", "halfword", "word")]
        ref = _norm(fs[2], mode)
        for f in fs[:2]:
            got = _norm(f, mode)
            ok = got == ref
            detail = None
            if not ok:
                a, b = got.splitlines(), ref.splitlines()
                diff = [(x, y) for x, y in zip(a, b) if x != y][:2] or [("<length differs>", f"{len(a)} vs {len(b)} statements")]
                detail = diff
            r.check(ok, f"{cn}.{f.name}~{kind}_word", f.loc(), f"{cn}.{f.name} differs from its sibling {kind}_word beyond the width-specific "
                    f"names: {detail}")
    r.floor(2 * len(groups))
