"""Evaluate an expression at a program point in the bit-slice domain, from its backward slice.

`forms_at(model, f, stmt, exprs)` collects, walking outwards through the blocks that enclose `stmt`,
the earlier statements that (transitively) define the names `exprs` depend on, runs them with
`sa.absrun` (free names symbolic), and returns the Forms of `exprs`.  Statements that do not define
a needed name are not looked at, so the slice of `lui_imm` / `addi_imm` in the middle of the 300-line
pseudo-instruction expander is three statements (or the body of an inlined helper), whatever
surrounds them.
"""
from __future__ import annotations

import ast
from typing import Optional

from .absrun import AbsRun
from .bitslice import Form, Inconclusive
from .model import FuncInfo, Model


def _stores(st: ast.AST) -> set:
    out = set()
    for n in ast.walk(st):
        if isinstance(n, ast.Name) and isinstance(n.ctx, ast.Store):
            out.add(n.id)
    return out


def _loads(st: ast.AST) -> set:
    return {n.id for n in ast.walk(st) if isinstance(n, ast.Name) and isinstance(n.ctx, ast.Load)}


def enclosing_blocks(fn: ast.AST, target: ast.AST) -> list[tuple[list, int]]:
    """[(block, index of the statement of that block that contains target)] from innermost to outermost."""
    out: list[tuple[list, int]] = []

    def rec(node: ast.AST) -> bool:
        for fld in ("body", "orelse", "finalbody", "handlers", "cases"):
            blk = getattr(node, fld, None)
            if not isinstance(blk, list):
                continue
            for i, st in enumerate(blk):
                if st is target or any(x is target for x in ast.walk(st)):
                    if isinstance(st, (ast.ExceptHandler, ast.match_case)):
                        return rec(st)
                    if st is not target:
                        rec(st)
                    out.append((blk, i))
                    return True
        return False

    rec(fn)
    return out


def backward_slice(fn: ast.AST, at: ast.AST, names: set) -> tuple[list, set]:
    """(statements in execution order, free names)"""
    need = set(names)
    picked: list = []
    for blk, idx in enclosing_blocks(fn, at):
        for st in reversed(blk[:idx]):
            if not isinstance(st, ast.stmt):
                continue
            if _stores(st) & need:
                picked.append(st)
                if isinstance(st, (ast.Assign, ast.AnnAssign)) and not isinstance(st, ast.AugAssign):
                    tg = st.targets if isinstance(st, ast.Assign) else [st.target]
                    if all(isinstance(t, (ast.Name, ast.Tuple)) for t in tg):
                        need -= {n.id for t in tg for n in ast.walk(t) if isinstance(n, ast.Name)}
                need |= _loads(st)
        # loop targets / with-as of the statement that owns the next block are opaque: stop asking for them
    picked.reverse()
    defined = set()
    for st in picked:
        defined |= _stores(st)
    free = set()
    seen_def: set = set()
    for st in picked:
        free |= (_loads(st) - seen_def)
        seen_def |= _stores(st)
    free |= (set(names) - seen_def)
    return picked, free


def forms_at(model: Model, f: FuncInfo, at: ast.AST, exprs: list[ast.AST], consts: Optional[dict] = None) -> tuple[list[Form], dict]:
    """Forms of `exprs` evaluated just before statement `at` -> ([Form], {free name: symbol})."""
    names = set()
    for e in exprs:
        names |= _loads(e)
    stmts, free = backward_slice(f.node, at, names)
    import builtins
    env = {n: Form.var(n) for n in free if not hasattr(builtins, n) and model.resolve_name(f.module, n) is None}
    run = AbsRun(model, f, env, consts or {})
    run.lenient = True
    run.block(stmts)
    out = []
    for e in exprs:
        out.append(run.ev.ev(e))
    return out, env


def symbolic_at(f: FuncInfo, at: ast.AST, names: set) -> dict:
    """The defining expressions of `names` just before statement `at`, with the locals of the backward slice substituted
    (straight-line: only plain assignments of the slice are followed; a name (re)defined under a branch stays a name)."""
    from .pathsym import subst
    stmts, _free = backward_slice(f.node, at, set(names))
    env: dict = {}
    for st in stmts:
        if isinstance(st, ast.Assign) and len(st.targets) == 1:
            t = st.targets[0]
            if isinstance(t, ast.Name):
                env[t.id] = subst(st.value, env)
                continue
            if isinstance(t, ast.Tuple) and all(isinstance(x, ast.Name) for x in t.elts):
                v = subst(st.value, env)
                for i, x in enumerate(t.elts):
                    if isinstance(v, ast.Tuple) and len(v.elts) == len(t.elts):
                        env[x.id] = v.elts[i]
                    else:
                        env[x.id] = ast.Subscript(value=v, slice=ast.Constant(value=i), ctx=ast.Load())
                continue
        if isinstance(st, ast.AnnAssign) and isinstance(st.target, ast.Name) and st.value is not None:
            env[st.target.id] = subst(st.value, env)
            continue
        for n in ast.walk(st):
            if isinstance(n, ast.Name) and isinstance(n.ctx, ast.Store):
                env.pop(n.id, None)
    return {n: env[n] for n in names if n in env}
