"""Datapath of the five RISC-V pipeline stages as a table of symbolic expressions.

Each stage's `behavior` is reduced by `sa.symflow` to (a) the expression every
field of the returned latch has, over the input latch `PR`, the architectural
state `STATE` and the stage object `SELF`, and (b) its ordered effects with
their path conditions.  This module states what those must be -- the classic
datapath the instruction-level normal forms of `sa.rvnf` are composed with --
and compares canonically (see `symflow.Printer`: local names, temporaries,
if/elif vs conditional expressions, test polarity, argument style and operand
order of commutative operators do not matter; boolean conditions are compared
as truth tables over their atoms, multiplexers as decision tables).

The table is the confirmed reading of today's `uarch/riscv/stages.py`.
"""
from __future__ import annotations

import ast

from .loopnorm import normalise_loops
from .model import AnalysisError, FuncInfo
from .report import Ctx
from .symflow import Flow, Printer, flow_of, parse_expr

ALIASES = {"P1[P2]": "PR", "P3": "STATE", "P0": "SELF"}

FETCH = "STATE.instruction_memory.read_instruction(address=STATE.program_counter)"
ALU1 = ("(None if PR.control_unit_signals.alu_src_1 is None else "
        "(PR.register_read_data_1 if PR.control_unit_signals.alu_src_1 else PR.address_of_instruction))")
ALU2 = "(PR.imm if PR.control_unit_signals.alu_src_2 else PR.register_read_data_2)"
ALU = f"PR.instruction.alu_compute(alu_in_1={ALU1}, alu_in_2={ALU2})"
ARF = "PR.instruction.access_register_file(architectural_state=STATE)"
COJ = "(PR.control_unit_signals.jump or PR.comparison)"
MISPREDICT = f"(PR.control_unit_signals.branch and {COJ} != PR.branch_prediction)"
REDIRECT = f"({MISPREDICT} or PR.control_unit_signals.jump)"
MEMFLUSH = (f"(FlushSignal(inclusive=False, address=PR.pc_plus_imm) if {REDIRECT} else "
            "(FlushSignal(inclusive=False, address=PR.result) if PR.control_unit_signals.alu_to_pc else "
            "(FlushSignal(inclusive=False, address=PR.pc_plus_instruction_length) if PR.exit_code is not None else None)))")
ANYFLUSH = f"({REDIRECT} or PR.control_unit_signals.alu_to_pc or PR.exit_code is not None)"
BUSY = ("any(not isinstance(o.instruction, EmptyInstruction) for o in "
        "P1[P2 + 1 + int(PR.is_of_stalled_value):-1])")
ECALL_NOW = f"(isinstance(PR.instruction, ECALL) and not {BUSY})"
ECALL_RES = "PR.instruction.process_ecall(architectural_state=STATE)"
WBDATA = ("(PR.pc_plus_instruction_length if PR.control_unit_signals.wb_src == 0 else "
          "(PR.memory_read_data if PR.control_unit_signals.wb_src == 1 else "
          "(PR.result if PR.control_unit_signals.wb_src == 2 else "
          "(PR.imm if PR.control_unit_signals.wb_src == 3 else None))))")


def _fwd(*names: str) -> dict:
    return {n: f"PR.{n}" for n in names}


# stage class -> spec
SPEC = {
    "InstructionFetchStage": {
        "abbr": "IF",
        "guard": "STATE.instruction_at_pc()",
        "empty": "InstructionFetchPipelineRegister",
        "latch_class": "InstructionFetchPipelineRegister",
        "latch": {
            "instruction": FETCH,
            "address_of_instruction": "STATE.program_counter",
            "branch_prediction": "False",
            "pc_plus_instruction_length": f"STATE.program_counter + {FETCH}.length",
            "control_unit_signals": f"{FETCH}.control_unit_signals()",
        },
        # (kind, canonical effect, condition, what it is)
        "effects": [
            ("aug", f"STATE.program_counter += {FETCH}.length", "GUARD", "pc advances by the fetched instruction's length"),
        ],
        "once": ["read_instruction"],
    },
    "InstructionDecodeStage": {
        "abbr": "ID",
        "other": ("stall_signal",),
        "guard": "isinstance(PR, InstructionFetchPipelineRegister)",
        "empty": "InstructionDecodePipelineRegister",
        "latch_class": "InstructionDecodePipelineRegister",
        "latch": {
            "instruction": "PR.instruction",
            "register_read_addr_1": f"{ARF}[0]",
            "register_read_addr_2": f"{ARF}[1]",
            "register_read_data_1": f"{ARF}[2]",
            "register_read_data_2": f"{ARF}[3]",
            "imm": f"{ARF}[4]",
            "write_register": "PR.instruction.get_write_register()",
            **_fwd("control_unit_signals", "branch_prediction", "pc_plus_instruction_length", "address_of_instruction"),
        },
        "effects": [],
        "once": ["access_register_file"],
    },
    "ExecuteStage": {
        "abbr": "EX",
        "guard": "isinstance(PR, InstructionDecodePipelineRegister)",
        "empty": "ExecutePipelineRegister",
        "latch_class": "ExecutePipelineRegister",
        "latch": {
            "instruction": "PR.instruction",
            "alu_in_1": ALU1,
            "alu_in_2": ALU2,
            "result": f"{ALU}[1]",
            "comparison": f"{ALU}[0]",
            "pc_plus_imm": "(PR.imm + PR.address_of_instruction if PR.imm is not None and PR.address_of_instruction is not None else None)",
            **_fwd("register_read_data_1", "register_read_data_2", "imm", "write_register", "control_unit_signals",
                   "branch_prediction", "pc_plus_instruction_length", "address_of_instruction"),
        },
        "drain": {
            "stall_signal": f"(StallSignal(2) if (isinstance(PR.instruction, ECALL) and {BUSY}) else None)",
            "exit_code": f"({ECALL_RES} if ({ECALL_NOW} and type({ECALL_RES}) is not str and type({ECALL_RES}) is int) else None)",
            "flush_signal": (f"(FlushSignal(inclusive=False, address=PR.pc_plus_instruction_length) "
                             f"if ({ECALL_NOW} and type({ECALL_RES}) is not str and type({ECALL_RES}) is int) else None)"),
        },
        "drain_effects": [
            ("call", ECALL_RES, f"GUARD and {ECALL_NOW}", "process_ecall runs once the older instructions have drained"),
            ("aug", f"STATE.output += {ECALL_RES}", f"GUARD and {ECALL_NOW} and type({ECALL_RES}) is str", "a string result is appended to the output"),
        ],
        "effects": [],
        "once": ["alu_compute"],
    },
    "MemoryAccessStage": {
        "abbr": "MEM",
        "guard": "isinstance(PR, ExecutePipelineRegister)",
        "empty": "MemoryAccessPipelineRegister",
        "latch_class": "MemoryAccessPipelineRegister",
        "latch": {
            "instruction": "PR.instruction",
            "memory_address": "PR.result",
            "memory_write_data": "PR.register_read_data_2",
            "memory_read_data": "PR.instruction.memory_access(memory_address=PR.result, memory_write_data=PR.register_read_data_2, architectural_state=STATE)",
            "comparison_or_jump": COJ,
            "flush_signal": MEMFLUSH,
            **_fwd("result", "comparison", "write_register", "control_unit_signals", "pc_plus_imm", "pc_plus_instruction_length",
                   "imm", "address_of_instruction", "exit_code"),
        },
        "effects": [
            ("aug", "STATE.performance_metrics.branch_count += 1",
             f"GUARD and {ANYFLUSH} and isinstance(PR.instruction, BTypeInstruction)", "branch_count counts redirecting B-type instructions"),
            ("aug", "STATE.performance_metrics.procedure_count += 1",
             f"GUARD and {ANYFLUSH} and not isinstance(PR.instruction, BTypeInstruction) and isinstance(PR.instruction, JAL)",
             "procedure_count counts JAL"),
        ],
        "once": ["memory_access"],
    },
    "RegisterWritebackStage": {
        "abbr": "WB",
        "guard": "isinstance(PR, MemoryAccessPipelineRegister)",
        "empty": "RegisterWritebackPipelineRegister",
        "latch_class": "RegisterWritebackPipelineRegister",
        "latch": {
            "instruction": "PR.instruction",
            "register_write_data": WBDATA,
            "alu_result": "PR.result",
            "flush_signal": "(FlushSignal(inclusive=False, address=PR.pc_plus_instruction_length) if PR.exit_code is not None else None)",
            **_fwd("write_register", "memory_read_data", "control_unit_signals", "pc_plus_instruction_length", "imm", "address_of_instruction"),
        },
        "effects": [
            ("call", f"PR.instruction.write_back(write_register=PR.write_register, register_write_data={WBDATA}, architectural_state=STATE)",
             "GUARD", "write_back(write_register, selected data)"),
            ("store", "STATE.exit_code = PR.exit_code", "GUARD and PR.exit_code is not None", "the exit code is committed in WB"),
        ],
        "once": ["write_back"],
    },
}


def _spec_printer(model) -> Printer:
    return Printer(model, [], {}, canonical=True)


def _canon_spec_expr(sp: Printer, src: str) -> str:
    return sp.show(parse_expr(src))


def _canon_spec_cond(sp: Printer, src: str) -> str:
    return sp.show_cond(((parse_expr(src), True),))


def _canon_spec_effect(sp: Printer, kind: str, src: str) -> str:
    st = ast.parse(src).body[0]
    if kind == "aug":
        assert isinstance(st, ast.AugAssign)
        import copy as _copy
        cur = _copy.deepcopy(st.target)
        for n in ast.walk(cur):
            if hasattr(n, "ctx"):
                n.ctx = ast.Load()  # type: ignore[attr-defined]
        return sp.show(ast.Assign(targets=[st.target], value=ast.BinOp(left=cur, op=st.op, right=st.value)))
    if kind == "store":
        assert isinstance(st, ast.Assign)
        return sp.show(ast.Assign(targets=[st.targets[0]], value=st.value))
    assert isinstance(st, ast.Expr)
    return sp.show(st.value)


def stage_flow(ctx: Ctx, cls: str) -> Flow:
    cache = ctx.__dict__.setdefault("_stageflow", {})
    if cls not in cache:
        f = ctx.model.method(cls, "behavior", own=True)
        g = FuncInfo(f.name, f.qname, normalise_loops(f.node), f.module, f.cls)
        cache[cls] = flow_of(g, ctx.model, ALIASES)
    return cache[cls]


def datapath_rule(ctx: Ctx, rid: str, fields_only: dict | None = None, section: str = "latch", desc: str | None = None) -> None:
    """fields_only: optional {stage class: set of latch fields / effect descriptions} restriction (for other properties).
    section: "latch" (+"effects") is the datapath proper; "drain" (+"drain_effects") the ECALL hold in EX."""
    m = ctx.model
    r = ctx.rule(rid, desc or "stage datapath: every latch field and architectural effect of the five stages is the documented "
                              "function of the input latch (compared as normal forms)")
    sp = _spec_printer(m)
    eff_section = "effects" if section == "latch" else section + "_effects"
    for cls, spec in SPEC.items():
        if section not in spec:
            continue
        only = None if fields_only is None else fields_only.get(cls)
        if fields_only is not None and only is None:
            continue
        if section != "latch" and only is None:
            only = set(spec[section]) | {w for _, _, _, w in spec.get(eff_section, [])}
        f = m.method(cls, "behavior", own=True)
        fl = stage_flow(ctx, cls)
        ab = spec["abbr"]
        guard = _canon_spec_cond(sp, spec["guard"])
        full = [x for x in fl.returns if isinstance(x.value, ast.Call) and x.value.keywords]
        empty = [x for x in fl.returns if x not in full]
        if only is None:
            ok = len(full) == 1 and fl.canon_cond(full[0].cond) == guard and fl.canon(full[0].value.func) == spec["latch_class"]  # type: ignore[union-attr]
            r.check(ok, f"{ab}|guard", f.loc(full[0].node if full else None),
                    f"{ab}: the populated latch is not returned exactly under `{spec['guard']}` "
                    f"(found {[fl.show_cond(x.cond) for x in full]})")
            ok = len(empty) == 1 and isinstance(empty[0].value, ast.Call) and not empty[0].value.args and \
                fl.canon(empty[0].value.func) == spec["empty"] and \
                fl.canon_cond(empty[0].cond) == sp.show_cond(((parse_expr(spec["guard"]), False),))
            r.check(ok, f"{ab}|bubble", f.loc(empty[0].node if empty else None),
                    f"{ab}: an empty {spec['empty']}() is not what is returned when the guard fails")
        if len(full) != 1:
            continue
        kws = {k.arg: k.value for k in full[0].value.keywords if k.arg}  # type: ignore[union-attr]
        if only is None and section == "latch":
            known = set(spec["latch"]) | set(spec.get("drain", {})) | set(spec.get("other", ()))
            extra = sorted(set(kws) - known)
            r.check(not extra, f"{ab}|no-other-field", f.loc(full[0].node),
                    f"{ab} sets latch field(s) {extra} that the documented datapath does not carry across this stage "
                    "(e.g. a stalled-value marker copied forward changes when later stages act)")
        for fld, src in spec[section].items():
            if only is not None and fld not in only:
                continue
            want = _canon_spec_expr(sp, src)
            got = fl.canon(kws[fld]) if fld in kws else "<field not set: dataclass default>"
            r.check(got == want, f"{ab}|{fld}", f.loc(kws[fld] if fld in kws and hasattr(kws[fld], "lineno") else full[0].node),
                    f"{ab} latch field `{fld}` is `{_clip(fl.show(kws[fld]) if fld in kws else got)}`, "
                    f"the datapath requires `{_clip(Printer(m, [], {}).show(parse_expr(src)))}`")
        for kind, src, cond, what in spec.get(eff_section, []):
            if only is not None and what not in only:
                continue
            want = _canon_spec_effect(sp, kind, src)
            wcond = _canon_spec_cond(sp, cond.replace("GUARD", spec["guard"]))
            same = [e for e in fl.effects if e.kind == ("store" if kind == "aug" else kind) and fl.canon(e.expr) == want]
            ok = len(same) == 1 and fl.canon_cond(same[0].cond) == wcond
            where = same[0].node if same else None
            if not same:
                detail = "no such effect on any path"
            elif len(same) > 1:
                detail = f"{len(same)} such effects"
            else:
                detail = f"it happens when `{_clip(fl.show_cond(same[0].cond))}`"
            r.check(ok, f"{ab}|{what}", f.loc(where),
                    f"{ab}: {what}: expected `{src}` exactly when `{_clip(cond.replace('GUARD', spec['guard']))}`; {detail}")
        if (only is None or any(f"once:{n_}" in only for n_ in spec["once"])) and section == "latch":
            for name in spec["once"]:
                if only is not None and f"once:{name}" not in only:
                    continue
                calls = [e for e in fl.effects if e.kind == "call" and isinstance(e.expr, ast.Call)
                         and isinstance(e.expr.func, ast.Attribute) and e.expr.func.attr == name]
                ok = len(calls) == 1 and fl.canon_cond(calls[0].cond) == guard
                r.check(ok, f"{ab}|once:{name}", f.loc(calls[0].node if calls else None),
                        f"{ab}: `{name}` must be called exactly once, exactly under the stage guard "
                        f"(found {[fl.show_cond(c.cond) for c in calls]})")
    if fields_only is None and section == "latch":
        r.floor(60)


def _clip(s: str, n: int = 260) -> str:
    return s if len(s) <= n else s[:n - 3] + "..."
