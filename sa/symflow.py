"""Symbolic dataflow normal form of one function body (syntax-directed; nothing is run).

`flow_of(fn)` walks the statements once with an environment local -> expression
(an `ast` tree over the function's parameters, attribute reads and calls).
Locals are substituted away, `if`/`elif` chains that assign a local become
conditional expressions, and what remains is

  * `returns`  -- every `return`, with its path condition and its value,
  * `effects`  -- every call / attribute store / augmented store / raise, in
                  program order, with its path condition.

`show()` prints an expression in a canonical form, so two functions that
differ only in

  * names of locals, temporaries introduced or removed,
  * `x = a if c else b`   vs   `if c: x = a  else: x = b`,
  * polarity of a test (`not c`, `is not`, `!=`),
  * positional vs keyword arguments of a callee the model can resolve,
  * operand order of `+ * & | ^ == !=` (and of `and`/`or` inside a test),
  * parameter names

print identically.  A read of an attribute that the function itself stores
to is tagged with the number of stores that precede it (`@n`), so moving the
read across the store changes the print.

Loops are opaque: a local assigned in a loop body prints as `LOOP<k>.<j>`
(k-th loop of the function, j-th local assigned in it); effects in the body
carry an `in LOOP<k>` condition.  Rules that need the inside of a loop use
`sa.paths`.
"""
from __future__ import annotations

import ast
import copy
from dataclasses import dataclass, field
from typing import Optional, Sequence

from .loopnorm import _Fuse
from .model import AnalysisError, FuncInfo, Model, body_without_docstring

Cond = tuple  # of (expr, polarity)
PSEUDO = ("ELEM", "REST", "CAPTURE", "MATCH", "EXCEPT")

PURE_CALLS = {"isinstance", "type", "int", "len", "range", "bool", "str", "min", "max", "abs", "list", "tuple", "set",
              "dict", "enumerate", "zip", "sorted", "reversed", "any", "all", "sum", "float", "pow", "hasattr", "getattr", "id",
              "repr", "hex", "bin"}


@dataclass
class Ret:
    cond: Cond
    value: Optional[ast.expr]
    node: ast.AST


@dataclass
class Eff:
    cond: Cond
    kind: str  # call | store | aug | raise
    expr: ast.AST  # substituted: Call / Assign / AugAssign / Raise.exc
    node: ast.AST  # original statement


@dataclass
class Flow:
    fn: FuncInfo
    returns: list[Ret] = field(default_factory=list)
    effects: list[Eff] = field(default_factory=list)
    printer: "Printer" = None  # type: ignore[assignment]
    cprinter: "Printer" = None  # type: ignore[assignment]

    def show(self, e: Optional[ast.AST]) -> str:
        return self.printer.show(e)

    def show_cond(self, c: Cond) -> str:
        return self.printer.show_cond(c)

    def canon(self, e: Optional[ast.AST]) -> str:
        return self.cprinter.show(e)

    def canon_cond(self, c: Cond) -> str:
        return self.cprinter.show_cond(c)


def _name(s: str) -> ast.Name:
    return ast.Name(id=s, ctx=ast.Load())


class _Subst(ast.NodeTransformer):
    def __init__(self, env: dict, shadow: frozenset = frozenset()) -> None:
        self.env = env
        self.shadow = shadow

    def visit_Name(self, node: ast.Name):
        if isinstance(node.ctx, ast.Load) and node.id in self.env and node.id not in self.shadow:
            return copy.deepcopy(self.env[node.id])
        return node

    def visit_Attribute(self, node: ast.Attribute):
        # store-to-load forwarding: `self.x = V` ... `self.x` reads V (until something may change it)
        if isinstance(node.ctx, ast.Load) and _plain_chain(node):
            try:
                k = "@" + ast.unparse(node)
            except Exception:
                k = ""
            if k in self.env and not (_chain_root(node) in self.shadow):
                return copy.deepcopy(self.env[k])
        return self.generic_visit(node)

    def visit_Call(self, node: ast.Call):
        # the receiver of a method call is an object, not a value: never forward a stored value into it
        if isinstance(node.func, ast.Attribute) and isinstance(node.func.value, ast.Attribute):
            new = copy.copy(node)
            f2 = copy.copy(node.func)
            plain = {k: v for k, v in self.env.items() if not (isinstance(k, str) and k.startswith("@"))}
            f2.value = _Subst(plain, self.shadow).visit(node.func.value)
            new.func = f2
            new.args = [self.visit(a) for a in node.args]
            new.keywords = [ast.keyword(arg=k.arg, value=self.visit(k.value)) for k in node.keywords]
            return new
        return self.generic_visit(node)

    def _comp(self, node):
        bound = set()
        for g in node.generators:
            for n in ast.walk(g.target):
                if isinstance(n, ast.Name):
                    bound.add(n.id)
        inner = _Subst(self.env, self.shadow | frozenset(bound))
        new = copy.copy(node)
        gens = []
        seen: set = set()
        for g in node.generators:
            g2 = copy.copy(g)
            # the iterable of a generator sees the outer scope plus targets of earlier generators
            g2.iter = _Subst(self.env, self.shadow | frozenset(seen)).visit(copy.deepcopy(g.iter))
            g2.ifs = [inner.visit(copy.deepcopy(i)) for i in g.ifs]
            for n in ast.walk(g.target):
                if isinstance(n, ast.Name):
                    seen.add(n.id)
            gens.append(g2)
        new.generators = gens
        for fld in ("elt", "key", "value"):
            if hasattr(node, fld):
                setattr(new, fld, inner.visit(copy.deepcopy(getattr(node, fld))))
        return new

    visit_ListComp = visit_SetComp = visit_GeneratorExp = visit_DictComp = _comp

    def visit_Lambda(self, node: ast.Lambda):
        a = node.args
        bound = {x.arg for x in a.posonlyargs + a.args + a.kwonlyargs}
        if a.vararg:
            bound.add(a.vararg.arg)
        if a.kwarg:
            bound.add(a.kwarg.arg)
        new = copy.copy(node)
        new.body = _Subst(self.env, self.shadow | frozenset(bound)).visit(copy.deepcopy(node.body))
        return new


def _assigned_names(stmts: Sequence[ast.stmt]) -> list[str]:
    out: list[str] = []

    def add(t: ast.AST) -> None:
        for n in ast.walk(t):
            if isinstance(n, ast.Name) and isinstance(n.ctx, ast.Store) and n.id not in out:
                out.append(n.id)

    class V(ast.NodeVisitor):
        def visit_FunctionDef(self, n):
            if n.name not in out:
                out.append(n.name)

        visit_AsyncFunctionDef = visit_ClassDef = visit_FunctionDef

        def visit_Lambda(self, n):
            pass

        def _comp(self, n):
            pass

        visit_ListComp = visit_SetComp = visit_GeneratorExp = visit_DictComp = _comp

        def visit_Name(self, n):
            if isinstance(n.ctx, ast.Store) and n.id not in out:
                out.append(n.id)

    for s in stmts:
        V().visit(s)
    return out


PURE_METHODS = {"get", "keys", "values", "items", "copy", "index", "count", "startswith", "endswith", "format", "join", "split",
                "strip", "lower", "upper", "bit_length", "to_bytes", "from_bytes", "isdigit", "find", "replace", "encode",
                "decode", "rstrip", "lstrip", "splitlines", "zfill", "rjust", "ljust", "hex",
                # fixedint / math constructors and functions reached as module attributes
                "UInt8", "Int8", "UInt16", "Int16", "UInt32", "Int32", "UInt64", "Int64", "MutableUInt32", "MutableInt32",
                "ceil", "floor", "log2", "sqrt", "__repr__", "__str__"}


def _syntactically_pure(model: Model, name: str, depth: int = 0, _seen: Optional[set] = None) -> bool:
    """No definition of a method called `name` stores to an attribute/subscript, deletes, or calls an impure method."""
    memo = model.__dict__.setdefault("_symflow_pure", {})
    if name in memo:
        return memo[name]
    seen = _seen if _seen is not None else set()
    if name in seen:
        return True
    seen.add(name)
    cands = model.methods_named(name)
    if not cands:
        res = name in PURE_METHODS
    elif depth > 4:
        res = False
    else:
        res = True
        for f in cands:
            for n in ast.walk(f.node):
                if isinstance(n, (ast.Assign, ast.AugAssign, ast.AnnAssign)):
                    tg = n.targets if isinstance(n, ast.Assign) else [n.target]
                    if any(isinstance(x, (ast.Attribute, ast.Subscript)) for t in tg for x in ast.walk(t) if isinstance(getattr(x, "ctx", None), ast.Store)):
                        res = False
                elif isinstance(n, ast.Delete):
                    res = False
                elif isinstance(n, ast.Call):
                    if isinstance(n.func, ast.Attribute):
                        if not _syntactically_pure(model, n.func.attr, depth + 1, seen):
                            res = False
                    elif isinstance(n.func, ast.Name) and n.func.id not in PURE_CALLS:
                        # a plain function or constructor: pure for the receiver unless it is handed the receiver's parts
                        pass
                if not res:
                    break
            if not res:
                break
    if _seen is None or res is False:
        memo[name] = res
    return res


MUTATING_CONTAINER_METHODS = {"append", "extend", "insert", "pop", "remove", "clear", "update", "setdefault", "add", "discard", "sort", "reverse",
                              "popitem", "appendleft", "popleft", "__setitem__", "__delitem__"}


def _mod_set(model: Model, name: str, depth: int = 0, _seen: Optional[set] = None) -> frozenset:
    """Names of the attributes that some definition of a method called `name` may (transitively) store to; "[]" stands for a store to an
    element of / a mutating call on a container, "*" for anything (analysis gave up)."""
    memo = model.__dict__.setdefault("_symflow_mods", {})
    if name in memo:
        return memo[name]
    seen = _seen if _seen is not None else set()
    if name in seen:
        return frozenset()
    seen.add(name)
    cands = model.methods_named(name)
    out: set = set()
    if not cands:
        if name in MUTATING_CONTAINER_METHODS:
            out.add("[]")
        elif name not in PURE_METHODS:
            out.add("*")
    elif depth > 6:
        out.add("*")
    else:
        for f in cands:
            for n in ast.walk(f.node):
                if isinstance(n, (ast.Assign, ast.AugAssign, ast.AnnAssign, ast.For, ast.With, ast.Delete, ast.NamedExpr)):
                    for x in ast.walk(n):
                        if isinstance(getattr(x, "ctx", None), (ast.Store, ast.Del)):
                            if isinstance(x, ast.Attribute):
                                out.add(x.attr)
                            elif isinstance(x, ast.Subscript):
                                out.add("[]")
                elif isinstance(n, ast.Call):
                    if isinstance(n.func, ast.Attribute):
                        out |= _mod_set(model, n.func.attr, depth + 1, seen)
                    elif isinstance(n.func, ast.Name) and n.func.id in ("setattr", "delattr", "exec", "eval", "vars"):
                        out.add("*")
    res = frozenset(out)
    if _seen is None:
        memo[name] = res
    return res


class _Walker:
    def __init__(self, fn: FuncInfo, model: Optional[Model] = None) -> None:
        self.fn = fn
        self.model = model
        self.flow = Flow(fn)
        self.loops = 0
        self.tries = 0
        self.stores: dict[str, int] = {}
        self.callver: dict[str, int] = {}
        self.callmods: dict[tuple, int] = {}  # (receiver, attribute the callee may store) -> number of such calls so far
        self._try_leaves: list = []  # per enclosing try body: version states at the statements that leave it

    # -- expressions -------------------------------------------------------------------------
    def ev(self, e: ast.AST, env: dict) -> ast.AST:
        e = copy.deepcopy(e)
        # walrus: `f(a) if g(a := X) else h`  ->  the name stands for X throughout the expression
        wal = {n.target.id: n.value for n in ast.walk(e) if isinstance(n, ast.NamedExpr) and isinstance(n.target, ast.Name)}
        if wal:
            class W(ast.NodeTransformer):
                def visit_NamedExpr(self, n):
                    return self.visit(n.value)

                def visit_Name(self, n):
                    if isinstance(n.ctx, ast.Load) and n.id in wal:
                        return W().visit(copy.deepcopy(wal[n.id]))
                    return n
            e = W().visit(e)
        new = _Subst(env).visit(e)
        new = _Fuse().visit(new)  # a comprehension over a substituted comprehension
        new = _DistributeCall().visit(new)  # (f if c else g)(x)  ->  f(x) if c else g(x)
        new = _QuantNorm().visit(new)
        self._tag(new)
        return new

    def _tag(self, e: ast.AST) -> None:
        """Tag attribute reads whose location the function has stored to so far."""
        for n in ast.walk(e):
            if isinstance(n, (ast.Attribute, ast.Subscript)) and not hasattr(n, "_ver"):
                if (self.stores or self.callver) and _plain_chain(n):
                    try:
                        k = ast.unparse(n)
                    except Exception:
                        k = ""
                    v = self.stores.get(k, 0)
                    for p, c in self.callver.items():
                        if k.startswith(p) and k[len(p):len(p) + 1] in (".", "["):
                            if isinstance(n, ast.Attribute):
                                # only the calls whose callee may store an attribute of that name
                                v += self.callmods.get((p, n.attr), 0) + self.callmods.get((p, "*"), 0)
                            else:
                                v += c
                    n._ver = v  # type: ignore[attr-defined]
                else:
                    n._ver = 0  # type: ignore[attr-defined]

    def _record_calls(self, e: ast.AST, cond: Cond, st: ast.AST, env: Optional[dict] = None) -> None:
        base_cond = cond
        for c, extra in _calls_with_conditions(e):
            cond = base_cond + extra
            if isinstance(c.func, ast.Name) and c.func.id in PURE_CALLS:
                continue
            if getattr(c, "_recorded", False):
                continue
            c._recorded = True  # type: ignore[attr-defined]
            self.flow.effects.append(Eff(cond, "call", c, st))
            if isinstance(c.func, ast.Attribute) and self.model is not None and not _syntactically_pure(self.model, c.func.attr):
                # the callee may change what hangs off its receiver: later reads through it print with a version tag
                try:
                    k = ast.unparse(c.func.value)
                except Exception:
                    continue
                self.callver[k] = self.callver.get(k, 0) + 1
                for a_ in _mod_set(self.model, c.func.attr):
                    self.callmods[(k, a_)] = self.callmods.get((k, a_), 0) + 1
                if env is not None:
                    self._invalidate(env, c.func.value)

    # -- versions are per path: fork at a branch, join (max) where paths meet ------------------
    def _vsave(self):
        return dict(self.stores), dict(self.callver), dict(self.callmods)

    def _vset(self, v) -> None:
        self.stores, self.callver, self.callmods = dict(v[0]), dict(v[1]), dict(v[2])

    def _vjoin(self, vs: list) -> None:
        outs: list = [{}, {}, {}]
        for tup in vs:
            for o, d in zip(outs, tup):
                for k, n in d.items():
                    o[k] = max(o.get(k, 0), n)
        self.stores, self.callver, self.callmods = outs

    # -- statements --------------------------------------------------------------------------
    def block(self, stmts: Sequence[ast.stmt], env: dict, cond: Cond) -> Optional[tuple[dict, Cond]]:
        """Returns the environment/condition at fall-through, or None when every path left."""
        for st in stmts:
            r = self.stmt(st, env, cond)
            if r is None:
                return None
            env, cond = r
        return env, cond

    def stmt(self, st: ast.stmt, env: dict, cond: Cond) -> Optional[tuple[dict, Cond]]:
        if isinstance(st, (ast.Pass, ast.Import, ast.ImportFrom, ast.Global, ast.Nonlocal, ast.Assert, ast.Delete)):
            return env, cond
        if isinstance(st, (ast.FunctionDef, ast.AsyncFunctionDef, ast.ClassDef)):
            env[st.name] = _name(f"NESTED_{st.name}")
            return env, cond
        if isinstance(st, ast.Expr):
            if isinstance(st.value, ast.Constant):
                return env, cond
            v = self.ev(st.value, env)
            self._record_calls(v, cond, st, env)
            return env, cond
        if isinstance(st, (ast.Assign, ast.AnnAssign)):
            if isinstance(st, ast.AnnAssign) and st.value is None:
                return env, cond
            v = self.ev(st.value, env)  # type: ignore[arg-type]
            self._record_calls(v, cond, st, env)
            targets = st.targets if isinstance(st, ast.Assign) else [st.target]
            for t in targets:
                self._bind(t, v, env, cond, st)
            return env, cond
        if isinstance(st, ast.AugAssign):
            v = self.ev(st.value, env)
            self._record_calls(v, cond, st, env)
            if isinstance(st.target, ast.Name):
                cur = copy.deepcopy(env.get(st.target.id, _name(st.target.id)))
                env[st.target.id] = ast.BinOp(left=cur, op=st.op, right=v)
            else:
                t = self.ev(_as_load(st.target), {k: x for k, x in env.items() if not k.startswith("@")})
                t._ver = 0  # type: ignore[attr-defined]  # the location, not a read of it
                self._invalidate(env, st.target)
                # `T op= V` is the store `T = T op V` (the read of T happens now: it carries the current version)
                cur = self.ev(_as_load(st.target), env)
                self.flow.effects.append(Eff(cond, "store", ast.Assign(targets=[t], value=ast.BinOp(left=cur, op=st.op, right=v)), st))
                self._stored(t)
            return env, cond
        if isinstance(st, ast.Return):
            v = self.ev(st.value, env) if st.value is not None else None
            if v is not None:
                self._record_calls(v, cond, st, env)
            self.flow.returns.append(Ret(cond, v, st))
            if self._try_leaves:
                self._try_leaves[-1].append(self._vsave())
            return None
        if isinstance(st, ast.Raise):
            v = self.ev(st.exc, env) if st.exc is not None else _name("RERAISE")
            self.flow.effects.append(Eff(cond, "raise", v, st))
            return None
        if isinstance(st, (ast.Break, ast.Continue)):
            if self._try_leaves:
                self._try_leaves[-1].append(self._vsave())
            return None
        if isinstance(st, ast.If):
            t = self.ev(st.test, env)
            self._record_calls(t, cond, st, env)
            v0 = self._vsave()
            r1 = self.block(st.body, dict(env), cond + ((t, True),))
            v1 = self._vsave()
            self._vset(v0)
            r2 = self.block(st.orelse, dict(env), cond + ((t, False),))
            v2 = self._vsave()
            if r1 is None and r2 is None:
                return None
            if r1 is None:
                return r2
            if r2 is None:
                self._vset(v1)
                return r1
            self._vjoin([v1, v2])
            e1, e2 = r1[0], r2[0]
            out = {}
            for k in list(dict.fromkeys(list(e1) + list(e2))):
                if k.startswith("@") and not (k in e1 and k in e2):
                    continue
                a, b = e1.get(k, _name(k)), e2.get(k, _name(k))
                if a is b or ast.dump(a) == ast.dump(b):
                    out[k] = a
                else:
                    out[k] = ast.IfExp(test=copy.deepcopy(t), body=a, orelse=b)
            # a nested branch may have left (return / raise): what holds afterwards is
            #   (t and <what the then-arm established>) or (not t and <what the else-arm established>)
            x1, x2 = r1[1][len(cond) + 1:], r2[1][len(cond) + 1:]
            if not x1 and not x2:
                return out, cond

            def conj(first: ast.AST, extras) -> ast.AST:
                parts = [first] + [e if pol else ast.UnaryOp(op=ast.Not(), operand=e) for e, pol in extras]
                return parts[0] if len(parts) == 1 else ast.BoolOp(op=ast.And(), values=parts)

            both = ast.BoolOp(op=ast.Or(), values=[conj(copy.deepcopy(t), x1), conj(ast.UnaryOp(op=ast.Not(), operand=copy.deepcopy(t)), x2)])
            return out, cond + ((both, True),)
        if isinstance(st, (ast.For, ast.AsyncFor, ast.While)):
            self.loops += 1
            k = self.loops
            # the iterable is evaluated once, before the first iteration: what the function has just stored is still what it reads
            it = None if isinstance(st, ast.While) else self.ev(st.iter, env)
            for fk in [x for x in env if x.startswith("@")]:
                del env[fk]
            if isinstance(st, ast.While):
                it = None
            else:
                # what a loop runs over: a comprehension that rebuilds every element as it is (`[(i, x) for i, x in IT]`), or a
                # `list(IT)` / `tuple(IT)` copy, presents the elements of IT in the order of IT
                from .loopnorm import _IdentityComp
                while True:
                    if isinstance(it, (ast.ListComp, ast.GeneratorExp)) and _IdentityComp._identity(it):
                        it = it.generators[0].iter
                    elif isinstance(it, ast.Call) and isinstance(it.func, ast.Name) and it.func.id in ("list", "tuple") and len(it.args) == 1 \
                            and not it.keywords and isinstance(it.args[0], ast.Call) and isinstance(it.args[0].func, ast.Name) \
                            and it.args[0].func.id in ("reversed", "enumerate", "zip", "range", "sorted"):
                        it = it.args[0]
                    else:
                        break
                self._record_calls(it, cond, st, env)
            names = _assigned_names(st.body + st.orelse)
            tnames = _assigned_names([ast.Expr(value=st.target)]) if not isinstance(st, ast.While) else []
            carried = {}
            # loop-carried locals are numbered by what they start from (then by first assignment), not by where in the body
            # they are first assigned: reordering the body does not rename them
            cn = [n for n in names if n not in tnames]

            def _init_key(n: str) -> str:
                pre = env.get(n)
                try:
                    return ast.unparse(pre) if pre is not None else "~"
                except Exception:
                    return "~"
            cn = [n for _i, n in sorted(enumerate(cn), key=lambda t: (_init_key(t[1]), t[0]))]
            for j, n in enumerate(cn):
                sym = _name(f"LOOP{k}.{j}")
                carried[n] = (sym, env.get(n))
                env[n] = sym
            # the element the loop looks at is ELEM<k>.0(iterable); a tuple target names its components ELEM<k>.0(iterable)[j],
            # so `for a, b, c in xs` and `for e in xs: e[2]` are the same thing
            if not isinstance(st, ast.While):
                elem = ast.Call(func=_name(f"ELEM{k}.0"), args=[copy.deepcopy(it)], keywords=[])

                def _bind_elem(t: ast.AST, v: ast.AST) -> None:
                    if isinstance(t, ast.Name):
                        env[t.id] = v
                    elif isinstance(t, (ast.Tuple, ast.List)):
                        for j2, x in enumerate(t.elts):
                            if isinstance(x, ast.Starred):
                                _bind_elem(x.value, ast.Call(func=_name("REST"), args=[copy.deepcopy(v), ast.Constant(value=j2)], keywords=[]))
                            else:
                                _bind_elem(x, ast.Subscript(value=copy.deepcopy(v), slice=ast.Constant(value=j2), ctx=ast.Load()))
                    else:
                        for n2 in tnames:
                            env.setdefault(n2, ast.Call(func=_name(f"ELEM{k}.{tnames.index(n2)}"), args=[copy.deepcopy(it)], keywords=[]))
                _bind_elem(st.target, elem)
            inner = cond + ((_name(f"LOOP{k}"), True),)
            if isinstance(st, ast.While):
                t = self.ev(st.test, env)
                self._record_calls(t, inner, st, env)
                inner = inner + ((t, True),)
            v0 = self._vsave()
            endb = self.block(st.body, dict(env), inner)
            # loop-carried locals: what one iteration makes of them (a recurrence), and what they start from
            for n, (sym, pre) in carried.items():
                if endb is not None:
                    post = endb[0].get(n)
                    if post is not None and not (isinstance(post, ast.Name) and post.id == sym.id) and _true_recurrence(post, sym.id):
                        self.flow.effects.append(Eff(inner, "carry", ast.Assign(targets=[copy.deepcopy(sym)], value=post), st))
                        if pre is not None:
                            self.flow.effects.append(Eff(cond, "carry", ast.Assign(targets=[_name(sym.id + ".init")], value=pre), st))
            if st.orelse:
                self.block(st.orelse, dict(env), cond + ((_name(f"LOOP{k}.else"), True),))
            self._vjoin([v0, self._vsave()])
            for fk in [x for x in env if x.startswith("@")]:
                del env[fk]
            return env, cond
        if isinstance(st, (ast.With, ast.AsyncWith)):
            for it in st.items:
                v = self.ev(it.context_expr, env)
                self._record_calls(v, cond, st, env)
                if it.optional_vars is not None:
                    self._bind(it.optional_vars, v, env, cond, st)
            return self.block(st.body, env, cond)
        if isinstance(st, ast.Try):
            self.tries += 1
            k = self.tries
            for fk in [x for x in env if x.startswith("@")]:
                del env[fk]
            names = _assigned_names(st.body)
            v0 = self._vsave()
            self._try_leaves.append([])
            r0 = self.block(st.body, dict(env), cond)
            vs = [self._vsave()]
            # an exception can come from anywhere in the body, also from a branch that then leaves it (continue / break / return):
            # the handler sees the newest version any of them produced
            left = self._try_leaves.pop()
            henv = dict(env)
            for j, n in enumerate(names):
                henv[n] = _name(f"TRY{k}.{j}")
            outs = []
            if r0 is not None:
                if st.orelse:
                    r0 = self.block(st.orelse, r0[0], r0[1])
                if r0 is not None:
                    outs.append(r0)
            for h in st.handlers:
                he = dict(henv)
                ty = self.ev(h.type, env) if h.type is not None else _name("BaseException")
                if h.name:
                    he[h.name] = _name(f"EXC{k}")
                self._vjoin([v0, vs[0]] + left)
                rh = self.block(h.body, he, cond + ((ast.Call(func=_name(f"EXCEPT{k}"), args=[ty], keywords=[]), True),))
                if rh is not None:
                    outs.append(rh)
                    vs.append(self._vsave())
            self._vjoin(vs)
            if not outs:
                if st.finalbody:
                    self.block(st.finalbody, dict(henv), cond)
                return None
            if len(outs) == 1:
                env2 = outs[0][0]
            else:
                env2 = {}
                keys = list(dict.fromkeys(k2 for o in outs for k2 in o[0]))
                for j, k2 in enumerate(keys):
                    vals = [o[0].get(k2) for o in outs]
                    if all(v is not None and ast.dump(v) == ast.dump(vals[0]) for v in vals):
                        env2[k2] = vals[0]
                    else:
                        env2[k2] = _name(f"TRYJOIN{k}.{j}")
            if st.finalbody:
                return self.block(st.finalbody, env2, cond)
            return env2, cond
        if isinstance(st, ast.Match):
            subj = self.ev(st.subject, env)
            self._record_calls(subj, cond, st, env)
            outs = []
            mv0 = self._vsave()
            mvs: list = []
            neg: Cond = ()
            for case in st.cases:
                t: ast.AST = ast.Call(func=_name("MATCH"), args=[copy.deepcopy(subj), ast.Constant(value=ast.unparse(case.pattern))], keywords=[])
                pat = case.pattern
                if isinstance(pat, ast.MatchValue) and isinstance(pat.value, ast.Constant) and isinstance(pat.value.value, (int, str)) \
                        and not isinstance(pat.value.value, bool):
                    # `case 3:` / `case "x":` (also a named constant already written out) matches exactly when `subject == 3`
                    t = ast.Compare(left=copy.deepcopy(subj), ops=[ast.Eq()], comparators=[copy.deepcopy(pat.value)])
                elif isinstance(pat, ast.MatchOr) and all(isinstance(q, ast.MatchValue) and isinstance(q.value, ast.Constant)
                                                          and isinstance(q.value.value, (int, str)) and not isinstance(q.value.value, bool) for q in pat.patterns):
                    t = ast.BoolOp(op=ast.Or(), values=[ast.Compare(left=copy.deepcopy(subj), ops=[ast.Eq()], comparators=[copy.deepcopy(q.value)])
                                                        for q in pat.patterns])
                elif isinstance(pat, ast.MatchAs) and pat.pattern is None and pat.name is None:
                    t = ast.Constant(value=True)  # `case _:` matches everything
                cenv = dict(env)
                for n in ast.walk(case.pattern):
                    for fld in ("name", "rest"):
                        v = getattr(n, fld, None)
                        if isinstance(v, str):
                            cenv[v] = ast.Call(func=_name("CAPTURE"), args=[copy.deepcopy(subj), ast.Constant(value=v)], keywords=[])
                c2 = cond + neg + ((t, True),)
                if case.guard is not None:
                    g = self.ev(case.guard, cenv)
                    c2 = c2 + ((g, True),)
                    t = ast.BoolOp(op=ast.And(), values=[t, g])
                self._vset(mv0)
                rc = self.block(case.body, cenv, c2)
                if rc is not None:
                    outs.append((t, rc[0]))
                    mvs.append(self._vsave())
                neg = neg + ((t, False),)
                if isinstance(case.pattern, ast.MatchAs) and case.pattern.pattern is None and case.guard is None:
                    break
            else:
                outs.append((None, dict(env)))  # no case matched
                mvs.append(mv0)
            if not outs:
                return None
            self._vjoin(mvs)
            # fold from the back into conditional expressions
            merged = outs[-1][1]
            for t, e1 in reversed(outs[:-1]):
                new = {}
                for k2 in list(dict.fromkeys(list(e1) + list(merged))):
                    a, b = e1.get(k2, _name(k2)), merged.get(k2, _name(k2))
                    new[k2] = a if ast.dump(a) == ast.dump(b) else ast.IfExp(test=copy.deepcopy(t), body=a, orelse=b)
                merged = new
            return merged, cond
        raise AnalysisError(f"symflow: unsupported statement {type(st).__name__} at {self.fn.loc(st)}")

    def _invalidate(self, env: dict, t: ast.AST, include_self: bool = True) -> None:
        """Forget forwarded attribute values that a store to / a mutating call on `t` may change."""
        try:
            k = ast.unparse(t)
        except Exception:
            k = None
        for key in [x for x in env if isinstance(x, str) and x.startswith("@")]:
            c = key[1:]
            if k is None or c == k and include_self or c.startswith(k + ".") or c.startswith(k + "[") or k.startswith(c + ".") or k.startswith(c + "["):
                if c == k and not include_self:
                    continue
                del env[key]

    def _stored(self, t: ast.AST) -> None:
        try:
            k = ast.unparse(t)
        except Exception:
            return
        self.stores[k] = self.stores.get(k, 0) + 1

    def _bind(self, t: ast.AST, v: ast.AST, env: dict, cond: Cond, st: ast.AST) -> None:
        if isinstance(t, ast.Name):
            env[t.id] = v
        elif isinstance(t, (ast.Tuple, ast.List)):
            if isinstance(v, (ast.Tuple, ast.List)) and len(v.elts) == len(t.elts) and not any(isinstance(x, ast.Starred) for x in t.elts + v.elts):
                for a, b in zip(t.elts, v.elts):
                    self._bind(a, b, env, cond, st)
            else:
                for i, a in enumerate(t.elts):
                    if isinstance(a, ast.Starred):
                        self._bind(a.value, ast.Call(func=_name("REST"), args=[copy.deepcopy(v), ast.Constant(value=i)], keywords=[]), env, cond, st)
                    else:
                        self._bind(a, ast.Subscript(value=copy.deepcopy(v), slice=ast.Constant(value=i), ctx=ast.Load()), env, cond, st)
        elif isinstance(t, (ast.Attribute, ast.Subscript)):
            tt = self.ev(_as_load(t), {k: x for k, x in env.items() if not k.startswith("@")})
            tt._ver = 0  # type: ignore[attr-defined]  # the location, not a read of it
            self.flow.effects.append(Eff(cond, "store", ast.Assign(targets=[tt], value=v), st))
            self._stored(tt)
            self._invalidate(env, t)
            if isinstance(t, ast.Attribute) and _plain_chain(t) and isinstance(st, (ast.Assign, ast.AnnAssign)) \
                    and isinstance(getattr(st, "value", None), ast.Name) and isinstance(v, ast.Call) and st.value.id in env \
                    and isinstance(v.func, ast.Name) and self.model is not None \
                    and any(v.func.id in mod.classes for mod in self.model.modules.values()):
                # `x = Cls(...); obj.attr = x`: x and obj.attr are the same object from here on -- name it by the attribute
                env[st.value.id] = self.ev(_as_load(t), {k: x for k, x in env.items() if not k.startswith("@")})
            if isinstance(t, ast.Attribute) and _plain_chain(t) and not any(isinstance(x, ast.Subscript) for x in ast.walk(t)):
                try:
                    env["@" + ast.unparse(t)] = v
                except Exception:
                    pass
        else:
            raise AnalysisError(f"symflow: unsupported assignment target {type(t).__name__} at {self.fn.loc(st)}")


class _QuantNorm(ast.NodeTransformer):
    """all(P for ..)  ->  not any(not P for ..)   (one quantifier survives)"""

    def visit_Call(self, n: ast.Call):
        self.generic_visit(n)
        if isinstance(n.func, ast.Name) and n.func.id == "all" and len(n.args) == 1 and not n.keywords \
                and isinstance(n.args[0], (ast.GeneratorExp, ast.ListComp)):
            g = copy.copy(n.args[0])
            g.elt = ast.UnaryOp(op=ast.Not(), operand=g.elt)
            return ast.UnaryOp(op=ast.Not(), operand=ast.Call(func=ast.Name(id="any", ctx=ast.Load()), args=[g], keywords=[]))
        return n


class _DistributeCall(ast.NodeTransformer):
    def visit_Call(self, n: ast.Call):
        self.generic_visit(n)
        if isinstance(n.func, ast.IfExp):
            a = ast.Call(func=n.func.body, args=copy.deepcopy(n.args), keywords=copy.deepcopy(n.keywords))
            b = ast.Call(func=n.func.orelse, args=copy.deepcopy(n.args), keywords=copy.deepcopy(n.keywords))
            return ast.IfExp(test=n.func.test, body=self.visit_Call(a), orelse=self.visit_Call(b))
        # getattr(o, A if c else B)  ->  o.A if c else o.B     (constant attribute names selected by a condition: a small table of names)
        if isinstance(n.func, ast.Name) and n.func.id == "getattr" and len(n.args) == 2 and not n.keywords and isinstance(n.args[1], ast.IfExp) \
                and isinstance(n.args[0], (ast.Name, ast.Attribute)):
            def dist(e_: ast.AST, depth_: int = 0) -> ast.AST:
                if isinstance(e_, ast.IfExp) and depth_ < 12:
                    return ast.IfExp(test=e_.test, body=dist(e_.body, depth_ + 1), orelse=dist(e_.orelse, depth_ + 1))
                if isinstance(e_, ast.Constant) and e_.value is None:
                    return ast.Constant(value=None)  # (only reached where "no name" has been excluded by the caller's own test)
                if isinstance(e_, ast.Constant) and isinstance(e_.value, str) and e_.value.isidentifier():
                    return ast.Attribute(value=copy.deepcopy(n.args[0]), attr=e_.value, ctx=ast.Load())
                return ast.Call(func=ast.Name(id="getattr", ctx=ast.Load()), args=[copy.deepcopy(n.args[0]), e_], keywords=[])
            return dist(n.args[1])
        return n


def _chain_root(n: ast.AST) -> str:
    while isinstance(n, (ast.Attribute, ast.Subscript)):
        n = n.value
    return n.id if isinstance(n, ast.Name) else ""


def _true_recurrence(post: ast.AST, sym: str) -> bool:
    """The value a loop-carried local has after one iteration depends on its value before it in more than the trivial
    way `new if c else <unchanged>` (a conditional assignment of iteration-local data is not a recurrence)."""
    def strip(e: ast.AST) -> list:
        if isinstance(e, ast.IfExp):
            return strip(e.body) + strip(e.orelse)
        return [e]
    for leaf in strip(post):
        if isinstance(leaf, ast.Name) and leaf.id == sym:
            continue
        if any(isinstance(n, ast.Name) and n.id == sym for n in ast.walk(leaf)):
            return True
    return False


def _plain_chain(n: ast.AST) -> bool:
    """a.b[c].d -- a location, not a call result."""
    while isinstance(n, (ast.Attribute, ast.Subscript)):
        n = n.value
    return isinstance(n, ast.Name)


def _as_load(t: ast.AST) -> ast.AST:
    t = copy.deepcopy(t)
    for n in ast.walk(t):
        if hasattr(n, "ctx"):
            n.ctx = ast.Load()  # type: ignore[attr-defined]
    return t


def _calls_with_conditions(e: ast.AST) -> list[tuple[ast.Call, tuple]]:
    """Calls in evaluation order, each with the conditions (conditional-expression arms) under which it is evaluated."""
    out: list = []

    def rec(n: ast.AST, cond: tuple) -> None:
        if isinstance(n, (ast.Lambda, ast.ListComp, ast.SetComp, ast.GeneratorExp, ast.DictComp)):
            return
        if isinstance(n, ast.IfExp):
            rec(n.test, cond)
            rec(n.body, cond + ((n.test, True),))
            rec(n.orelse, cond + ((n.test, False),))
            return
        if isinstance(n, ast.Call) and isinstance(n.func, ast.Name) and n.func.id.startswith(PSEUDO):
            for c in n.args:
                rec(c, cond)
            return
        for c in ast.iter_child_nodes(n):
            rec(c, cond)
        if isinstance(n, ast.Call):
            out.append((n, cond))

    rec(e, ())
    return out


def _calls_outer_first(e: ast.AST) -> list[ast.Call]:
    out: list[ast.Call] = []

    def rec(n: ast.AST) -> None:
        if isinstance(n, (ast.Lambda, ast.ListComp, ast.SetComp, ast.GeneratorExp, ast.DictComp)):
            return
        if isinstance(n, ast.Call) and isinstance(n.func, ast.Name) and n.func.id.startswith(PSEUDO):
            for c in n.args:
                rec(c)
            return
        # evaluation order: arguments before the call itself
        for c in ast.iter_child_nodes(n):
            rec(c)
        if isinstance(n, ast.Call):
            out.append(n)

    rec(e)
    return out


# ---------------------------------------------------------------------------------------------
# canonical printing


_EQ_CONST = None
_LIN_ATOMS: dict = {}  # printed linear atom -> (terms, K, kind, non-negative terms); filled by Printer._bool
_LIN_CLASH_MEMO: dict = {}


def _atom_theory(atoms: list) -> list:
    """Combinations of atom values that cannot occur (lists of (atom, value) that clash):
         x == c1 and x == c2 (c1 != c2);  x == 'text' without isinstance(x, str) / type(x) == str;
         type(x) == str without isinstance(x, str);  x is None together with any of those."""
    import re
    global _EQ_CONST
    if _EQ_CONST is None:
        _EQ_CONST = re.compile(r"^Eq\(('(?:[^'\\]|\\.)*'|-?\d+), (.+)\)$")
    eqs: dict = {}
    for a in atoms:
        mm = _EQ_CONST.match(a)
        if mm:
            eqs.setdefault(mm.group(2), []).append((mm.group(1), a))
    out = []
    aset = set(atoms)
    for x, lst in eqs.items():
        for i in range(len(lst)):
            for j in range(i + 1, len(lst)):
                if lst[i][0] != lst[j][0]:
                    out.append([(lst[i][1], True), (lst[j][1], True)])
        for c, a in lst:
            if c.startswith("'"):
                for b in (f"isinstance({x}, str)", f"Eq(str, type({x}))"):
                    if b in aset:
                        out.append([(a, True), (b, False)])
            for b in (f"Is({x}, None)", f"Is(None, {x})"):
                if b in aset:
                    out.append([(a, True), (b, True)])
    # orderings of one quantity against integer constants:  T < K1 implies T < K2 for K1 <= K2;  T == k decides T < K
    lts: dict = {}
    for a in atoms:
        mm = re.match(r"^Lt\((.+), (-?\d+)\)$", a)
        if mm and Printer._balanced(mm.group(1)):
            lts.setdefault(mm.group(1), []).append((int(mm.group(2)), a))
    for x, lst in lts.items():
        lst.sort()
        for i in range(len(lst)):
            for j in range(i + 1, len(lst)):
                if lst[i][0] <= lst[j][0]:
                    out.append([(lst[i][1], True), (lst[j][1], False)])
        for c, a in eqs.get(x, []):
            if not c.startswith("'"):
                for kk, la in lst:
                    out.append([(a, True), (la, not (int(c) < kk))])
    # linear arithmetic over several atoms (and value-range facts): combinations no integers satisfy
    lin = {a: _LIN_ATOMS[a] for a in atoms if a in _LIN_ATOMS}
    if lin:
        key = tuple(sorted(lin))
        if key not in _LIN_CLASH_MEMO:
            from .ranges import linear_clashes
            _LIN_CLASH_MEMO[key] = linear_clashes(lin)
        out.extend(_LIN_CLASH_MEMO[key])
    for a in atoms:
        if a.startswith("Eq(str, type(") and a.endswith("))"):
            x = a[len("Eq(str, type("):-2]
            if f"isinstance({x}, str)" in aset:
                out.append([(a, True), (f"isinstance({x}, str)", False)])
            for b in (f"Is({x}, None)", f"Is(None, {x})"):
                if b in aset:
                    out.append([(a, True), (b, True)])
        if a.startswith("isinstance(") and a.endswith(", str)"):
            x = a[len("isinstance("):-len(", str)")]
            if f"isinstance({x}, int)" in aset:
                out.append([(a, True), (f"isinstance({x}, int)", True)])
            for b in (f"Is({x}, None)", f"Is(None, {x})"):
                if b in aset:
                    out.append([(a, True), (b, True)])
    return out


_SEQ_CALLS = {"str", "chr", "bin", "hex", "oct", "repr", "list", "sorted", "tuple", "bytes", "bytearray", "format", "to_hex_str", "reversed"}
_SEQ_METHODS = {"join", "format", "upper", "lower", "strip", "lstrip", "rstrip", "replace", "zfill", "rjust", "ljust", "split", "copy", "to_bytes",
                "capitalize", "title", "removeprefix", "removesuffix", "center", "decode", "encode"}


def _seqlike(e: ast.AST) -> bool:
    """Syntactically a string / list / tuple: `+` on it concatenates (and does not commute)."""
    if isinstance(e, (ast.List, ast.ListComp, ast.Tuple, ast.JoinedStr)):
        return True
    if isinstance(e, ast.Constant):
        return isinstance(e.value, (str, bytes))
    if isinstance(e, ast.Call):
        if isinstance(e.func, ast.Name):
            return e.func.id in _SEQ_CALLS
        if isinstance(e.func, ast.Attribute):
            return e.func.attr in _SEQ_METHODS
    if isinstance(e, ast.BinOp) and isinstance(e.op, ast.Add):
        return _seqlike(e.left) or _seqlike(e.right)
    if isinstance(e, ast.BinOp) and isinstance(e.op, (ast.Mult, ast.Mod)):
        return _seqlike(e.left) or (isinstance(e.op, ast.Mult) and _seqlike(e.right))
    if isinstance(e, ast.IfExp):
        return _seqlike(e.body) or _seqlike(e.orelse)
    if isinstance(e, ast.Subscript) and isinstance(e.slice, ast.Slice):
        return True
    return False


class Printer:
    def __init__(self, model: Optional[Model], params: Sequence[str], aliases: Optional[dict] = None, canonical: bool = False) -> None:
        self.model = model
        self.canonical = canonical
        self.params = {p: f"P{i}" for i, p in enumerate(params)}
        self.aliases = aliases or {}
        self._sigcache: dict = {}

    # -- call signatures ---------------------------------------------------------------------
    def _sig(self, call: ast.Call) -> Optional[list[str]]:
        m = self.model
        if m is None:
            return None
        f = call.func
        key = ("n", f.id) if isinstance(f, ast.Name) else ("a", f.attr) if isinstance(f, ast.Attribute) else None
        if key is None:
            return None
        if key in self._sigcache:
            return self._sigcache[key]
        sig: Optional[list[str]] = None
        if key[0] == "n":
            cands = [c for mod in m.modules.values() for c in mod.classes.values() if c.name == key[1]]
            if len(cands) == 1:
                c = cands[0]
                init = m.lookup(c, "__init__")
                if init is not None:
                    sig = init.params[1:]
                elif c.is_dataclass:
                    sig = []
                    for k in reversed(m.mro(c)):
                        for name in k.anns:
                            if name not in sig:
                                sig.append(name)
            else:
                fs = [fn for mod in m.modules.values() for fn in mod.functions.values() if fn.name == key[1]]
                if len(fs) == 1:
                    sig = fs[0].params
        else:
            fs2 = list(m.methods_named(key[1]))
            if fs2:
                sigs = {tuple(fn.params[(0 if fn.is_staticmethod else 1):]) for fn in fs2}
                if len(sigs) == 1:
                    sig = list(next(iter(sigs)))
        self._sigcache[key] = sig
        return sig

    # -- boolean view ------------------------------------------------------------------------
    def atom(self, e: ast.AST) -> tuple[ast.AST, bool]:
        """Strip negations: returns (positive atom, polarity)."""
        pol = True
        while True:
            if isinstance(e, ast.UnaryOp) and isinstance(e.op, ast.Not):
                e, pol = e.operand, not pol
                continue
            if isinstance(e, ast.Compare) and len(e.ops) == 1:
                op = e.ops[0]
                flip = {ast.IsNot: ast.Is, ast.NotEq: ast.Eq, ast.NotIn: ast.In}.get(type(op))
                if flip is not None:
                    e = ast.Compare(left=e.left, ops=[flip()], comparators=e.comparators)
                    pol = not pol
                    continue
                # X == []  /  X == ""  /  X == {}  ->  not X      (emptiness of a container is its falsity)
                if isinstance(op, ast.Eq):
                    hit = False
                    for a_, b_ in ((e.left, e.comparators[0]), (e.comparators[0], e.left)):
                        if (isinstance(b_, (ast.List, ast.Tuple)) and not b_.elts) or (isinstance(b_, ast.Dict) and not b_.keys) \
                                or (isinstance(b_, ast.Constant) and b_.value == "" and isinstance(b_.value, str)):
                            if not isinstance(a_, (ast.List, ast.Tuple, ast.Dict, ast.Constant)):
                                e, pol, hit = a_, not pol, True
                                break
                    if hit:
                        continue
                # type(x) == str  ->  isinstance(x, str)   (no str subclasses in this code base: parser tokens are str or ParseResults)
                if isinstance(op, (ast.Eq, ast.Is)):
                    for a_, b_ in ((e.left, e.comparators[0]), (e.comparators[0], e.left)):
                        if isinstance(a_, ast.Call) and isinstance(a_.func, ast.Name) and a_.func.id == "type" and len(a_.args) == 1 \
                                and isinstance(b_, ast.Name) and (b_.id in ("str", "int") or self._leaf_class(b_.id)):
                            return ast.Call(func=ast.Name(id="isinstance", ctx=ast.Load()), args=[a_.args[0], b_], keywords=[]), pol
                # orderings: only `<` survives --  a > b = b < a ;  a >= b = not (a < b) ;  a <= b = not (b < a)
                if isinstance(op, ast.Gt):
                    e = ast.Compare(left=e.comparators[0], ops=[ast.Lt()], comparators=[e.left])
                    continue
                if isinstance(op, ast.GtE):
                    e = ast.Compare(left=e.left, ops=[ast.Lt()], comparators=e.comparators)
                    pol = not pol
                    continue
                if isinstance(op, ast.LtE):
                    e = ast.Compare(left=e.comparators[0], ops=[ast.Lt()], comparators=[e.left])
                    pol = not pol
                    continue
                if isinstance(op, ast.Lt) and not getattr(e, "_lin_cmp", False):
                    n2 = self._linear_compare(e)
                    if n2 is not None:
                        e, flip = n2
                        if flip:
                            pol = not pol
                if isinstance(op, ast.Eq) and not getattr(e, "_lin_cmp", False) and any(
                        isinstance(x, ast.BinOp) and isinstance(x.op, (ast.Add, ast.Sub)) for x in (e.left, e.comparators[0])):
                    n2 = self._linear_compare(e, eq=True)
                    if n2 is not None:
                        e = n2[0]
            return e, pol

    def _linear_compare(self, e: ast.Compare, eq: bool = False):
        """l < r over integer-linear sides with an integer constant: one canonical atom `T < K` (T: the non-constant terms with a
        positive leading coefficient, K: an integer), possibly negated -- `i - 1 >= 0`, `i >= 1`, `i > 0`, `not i < 1` are one atom.
        (`T > k` is `not T < k + 1`: the compared quantities of this code base are integers.)"""
        terms: dict = {}
        const = [0]
        seen_const = [False]

        def rec(x: ast.AST, sign: int) -> bool:
            if isinstance(x, ast.BinOp) and isinstance(x.op, ast.Add) and not _seqlike(x):
                return rec(x.left, sign) and rec(x.right, sign)
            if isinstance(x, ast.BinOp) and isinstance(x.op, ast.Sub):
                return rec(x.left, sign) and rec(x.right, -sign)
            if isinstance(x, ast.UnaryOp) and isinstance(x.op, ast.USub):
                return rec(x.operand, -sign)
            if isinstance(x, ast.Constant):
                if isinstance(x.value, int) and not isinstance(x.value, bool):
                    const[0] += sign * x.value
                    seen_const[0] = True
                    return True
                return False
            if _seqlike(x):
                return False
            k = self._show(x)
            if k not in terms:
                terms[k] = [0, x]
            terms[k][0] += sign
            return True

        if not (rec(e.left, 1) and rec(e.comparators[0], -1)) or (eq and not seen_const[0]):
            return None
        live = sorted(((k, c, x) for k, (c, x) in terms.items() if c != 0), key=lambda t: t[0])
        if not live:
            return None
        # sum(c_k t_k) + const < 0
        flip = live[0][1] < 0
        c0 = const[0]
        if flip:
            live = [(k, -c, x) for k, c, x in live]
        pos = [copy.deepcopy(x) for k, c, x in live if c > 0 for _ in range(c)]
        neg = [copy.deepcopy(x) for k, c, x in live if c < 0 for _ in range(-c)]
        t: ast.AST = pos[0]
        for x in pos[1:]:
            t = ast.BinOp(left=t, op=ast.Add(), right=x)
        for x in neg:
            t = ast.BinOp(left=t, op=ast.Sub(), right=x)
        for n in ast.walk(t):
            if isinstance(n, ast.BinOp):
                n._lin_done = True  # type: ignore[attr-defined]
        lin_terms = tuple((k, c) for k, c, x in live)
        lin_nonneg = frozenset(k for k, c, x in live if self._nonneg(x))
        if eq:
            # +-T + c0 == 0   <=>   T == -+c0
            out = ast.Compare(left=ast.Constant(value=c0 if flip else -c0), ops=[ast.Eq()], comparators=[t])
            out._lin_cmp = True  # type: ignore[attr-defined]
            out._lin_info = (lin_terms, c0 if flip else -c0, "eq", lin_nonneg)  # type: ignore[attr-defined]
            return out, False
        if not flip:
            # T + c0 < 0   <=>   T < -c0
            out = ast.Compare(left=t, ops=[ast.Lt()], comparators=[ast.Constant(value=-c0)])
            out._lin_cmp = True  # type: ignore[attr-defined]
            out._lin_info = (lin_terms, -c0, "lt", lin_nonneg)  # type: ignore[attr-defined]
            return out, False
        # -T + c0 < 0   <=>   T > c0   <=>   not (T < c0 + 1)      (integers)
        out = ast.Compare(left=t, ops=[ast.Lt()], comparators=[ast.Constant(value=c0 + 1)])
        out._lin_cmp = True  # type: ignore[attr-defined]
        out._lin_info = (lin_terms, c0 + 1, "lt", lin_nonneg)  # type: ignore[attr-defined]
        return out, True

    def _nonneg(self, x: ast.AST) -> bool:
        """A term of a linear comparison that is provably >= 0 (value-range facts of `sa.ranges`)."""
        if isinstance(x, ast.Call) and isinstance(x.func, ast.Name) and x.func.id == "len" and len(x.args) == 1:
            return True
        if self.model is not None and isinstance(x, ast.Subscript) and isinstance(x.value, ast.Attribute) and isinstance(x.slice, ast.Constant) \
                and isinstance(x.slice.value, int) and not isinstance(x.slice.value, bool) and x.slice.value >= 0:
            from .ranges import attr_elem_nonneg
            return attr_elem_nonneg(self.model, x.value.attr, x.slice.value)
        return False

    def show_test(self, e: ast.AST) -> str:
        """Canonical print of an expression used for its truth value only."""
        b = self._bool(e)
        return self._show_bool(b)

    # boolean formula: ("lit", str, pol) | ("and"/"or", [..]) | ("const", bool)
    def _bool(self, e: ast.AST, pol: bool = True):
        e, p = self.atom(e)
        pol = pol == p
        if isinstance(e, ast.BoolOp):
            kind = "and" if isinstance(e.op, ast.And) else "or"
            if not pol:
                kind = "or" if kind == "and" else "and"
            vals = list(e.values)
            if any(isinstance(n, ast.IfExp) for v in vals[1:] for n in ast.walk(v)):
                # short circuit: a later operand is evaluated only when the earlier ones were true (and) / false (or); a conditional
                # value inside it whose test that decides is the selected arm
                ctx = ("const", True)
                out_vals = []
                for v in vals:
                    v2 = self.resolve_under(v, ctx) if ctx != ("const", True) else v
                    out_vals.append(v2)
                    ctx = self._mk("and", [ctx, self._bool(v2, isinstance(e.op, ast.And))])
                vals = out_vals
            return self._mk(kind, [self._bool(v, pol) for v in vals])
        if isinstance(e, ast.IfExp):
            c = e.test
            a, b = self._bool(e.body, pol), self._bool(e.orelse, pol)
            if a == b:
                return a
            if a[0] == "const":
                return self._mk("or", [self._bool(c, True), b]) if a[1] else self._mk("and", [self._bool(c, False), b])
            if b[0] == "const":
                return self._mk("or", [self._bool(c, False), a]) if b[1] else self._mk("and", [self._bool(c, True), a])
            return self._mk("or", [self._mk("and", [self._bool(c, True), a]), self._mk("and", [self._bool(c, False), b])])
        if isinstance(e, ast.Constant) and (e.value is None or isinstance(e.value, (bool, int, str))):
            return ("const", bool(e.value) == pol)
        if isinstance(e, ast.Compare) and len(e.ops) == 1 and isinstance(e.ops[0], ast.Is) and \
                isinstance(e.comparators[0], ast.Constant) and e.comparators[0].value is None:
            # (a if c else b) is None  -> distribute; constructor calls are never None
            l = e.left
            if isinstance(l, ast.IfExp):
                a = ast.Compare(left=l.body, ops=[ast.Is()], comparators=e.comparators)
                b = ast.Compare(left=l.orelse, ops=[ast.Is()], comparators=e.comparators)
                return self._bool(ast.IfExp(test=l.test, body=a, orelse=b), pol)
            if isinstance(l, ast.Constant):
                return ("const", (l.value is None) == pol)
            if isinstance(l, ast.BinOp) and isinstance(l.op, (ast.Add, ast.Sub, ast.Mult, ast.FloorDiv, ast.Mod, ast.LShift, ast.RShift, ast.BitAnd, ast.BitOr,
                                                             ast.BitXor, ast.Pow)):
                return ("const", not pol)  # the result of arithmetic is never None
            if isinstance(l, ast.Call) and isinstance(l.func, ast.Name) and self._is_class(l.func.id):
                return ("const", not pol)
            if self._never_none(l):
                return ("const", not pol)
            if self._table_get(l):
                # TABLE.get(k) is None  <=>  k not in TABLE      (a module-level table holds no None)
                return self._bool(ast.Compare(left=l.args[0], ops=[ast.In()], comparators=[l.func.value]), not pol)  # type: ignore[attr-defined]
        if isinstance(e, ast.Compare) and len(e.ops) == 1 and isinstance(e.ops[0], (ast.Eq, ast.NotEq, ast.Is, ast.IsNot)):
            # (a if c else b) == K  ->  (a == K) if c else (b == K): a comparison with a conditional value is the conditional of the
            # comparisons (c is evaluated first either way); two constants compare to a constant
            l, r = e.left, e.comparators[0]
            if isinstance(l, ast.IfExp) and isinstance(r, ast.Constant):
                return self._bool(ast.IfExp(test=l.test, body=ast.Compare(left=l.body, ops=e.ops, comparators=[r]),
                                            orelse=ast.Compare(left=l.orelse, ops=e.ops, comparators=[r])), pol)
            if isinstance(r, ast.IfExp) and isinstance(l, ast.Constant):
                return self._bool(ast.IfExp(test=r.test, body=ast.Compare(left=l, ops=e.ops, comparators=[r.body]),
                                            orelse=ast.Compare(left=l, ops=e.ops, comparators=[r.orelse])), pol)
            if isinstance(l, ast.Constant) and isinstance(r, ast.Constant) and all(
                    x.value is None or isinstance(x.value, (str, int, bool)) for x in (l, r)):
                same = l.value == r.value and type(l.value) is type(r.value) if isinstance(e.ops[0], (ast.Is, ast.IsNot)) else l.value == r.value
                if isinstance(e.ops[0], (ast.NotEq, ast.IsNot)):
                    same = not same
                if not isinstance(e.ops[0], (ast.Is, ast.IsNot)) or l.value is None or r.value is None or not same:
                    return ("const", same == pol)
        lit = self._show(e, atom=True)
        info = getattr(e, "_lin_info", None)
        if info is None and isinstance(e, ast.Compare) and len(e.ops) == 1 and isinstance(e.ops[0], ast.Eq):
            # K == t  with an integer constant: a linear atom over the one term t
            for a_, b_ in ((e.left, e.comparators[0]), (e.comparators[0], e.left)):
                if isinstance(a_, ast.Constant) and isinstance(a_.value, int) and not isinstance(a_.value, bool) \
                        and not isinstance(b_, ast.Constant) and not _seqlike(b_):
                    k_ = self._show(b_)
                    info = (((k_, 1),), a_.value, "eq", frozenset([k_]) if self._nonneg(b_) else frozenset())
                    break
        if info is not None:
            _LIN_ATOMS[lit] = info
        return ("lit", lit, pol)

    def resolve_under(self, expr: ast.AST, cb) -> ast.AST:
        """`expr` with every conditional value whose test the boolean formula `cb` decides replaced by the selected arm."""
        if not any(isinstance(n, ast.IfExp) for n in ast.walk(expr)):
            return expr
        pr = self

        def decided(test: ast.AST):
            t = pr._tables([pr._mk("and", [cb, pr._bool(test)]), pr._mk("and", [cb, pr._bool(test, False)])])
            if t is None:
                return None
            if t[1][1] == 0 and t[1][0] != 0:
                return True
            if t[1][0] == 0 and t[1][1] != 0:
                return False
            return None

        class T(ast.NodeTransformer):
            def visit_IfExp(self, n: ast.IfExp):
                d = decided(n.test)
                if d is True:
                    return self.visit(n.body)
                if d is False:
                    return self.visit(n.orelse)
                return self.generic_visit(n)

        return T().visit(copy.deepcopy(expr))

    def _never_none(self, e: ast.AST) -> bool:
        """An element of an attribute annotated as a list / tuple of int or of a package class (`self.stalled: list[int] | None`,
        `self.stalled_pipeline_regs: list[PipelineRegister] | None`): never None -- the declared element type is not Optional."""
        m = self.model
        if m is None or not (isinstance(e, ast.Subscript) and isinstance(e.value, ast.Attribute) and not isinstance(e.slice, ast.Slice)):
            return False
        memo = m.__dict__.setdefault("_symflow_elem_int", {})
        attr = e.value.attr
        if attr not in memo:
            anns = []
            for f in m.functions.values():
                for n in ast.walk(f.__dict__.get("raw_node", f.node)):
                    if isinstance(n, ast.AnnAssign) and isinstance(n.target, ast.Attribute) and n.target.attr == attr:
                        anns.append(" ".join(ast.unparse(n.annotation).split()))
            import re as _re
            classes = "|".join(sorted({c.name for c in m.classes.values()}, key=len, reverse=True))
            memo[attr] = bool(anns) and all(_re.fullmatch(r"(Optional\[)?(list|tuple|List|Tuple)\[(int|" + classes + r")(, (int|\.\.\.|" + classes +
                                                          r"))*\]\]?( \| None)?", a) for a in anns)
        return memo[attr]

    def _table_get(self, e: ast.AST) -> bool:
        """`TABLE.get(k)` (one argument) on a module-level dict of the package"""
        m = self.model
        if m is None or not (isinstance(e, ast.Call) and isinstance(e.func, ast.Attribute) and e.func.attr == "get" and len(e.args) == 1 and not e.keywords
                             and isinstance(e.func.value, ast.Name)):
            return False
        name = e.func.value.id
        if name in self.params:
            return False
        memo = m.__dict__.setdefault("_symflow_tables", {})
        if name not in memo:
            vals = [mod.assigns[name] for mod in m.modules.values() if name in mod.assigns]
            memo[name] = bool(vals) and all(isinstance(v, (ast.Dict, ast.DictComp)) or (isinstance(v, ast.Call) and isinstance(v.func, ast.Name) and v.func.id == "dict")
                                            for v in vals)
        return memo[name]

    def _leaf_class(self, name: str) -> bool:
        """A class of the package without subclasses: `type(x) is C` and `isinstance(x, C)` coincide."""
        m = self.model
        if m is None:
            return False
        memo = m.__dict__.setdefault("_symflow_leaf", {})
        if name not in memo:
            cs = [c for mod in m.modules.values() for c in mod.classes.values() if c.name == name]
            memo[name] = len(cs) == 1 and not [k for k in m.subclasses(cs[0]) if k is not cs[0]]
        return memo[name]

    def _is_class(self, name: str) -> bool:
        m = self.model
        if m is None:
            return False
        return any(name in mod.classes for mod in m.modules.values())

    def _mk(self, kind: str, parts: list):
        flat = []
        for p in parts:
            if p[0] == kind:
                flat.extend(p[1])
            else:
                flat.append(p)
        absorbing = kind == "or"
        out = []
        for p in flat:
            if p[0] == "const":
                if p[1] == absorbing:
                    return ("const", absorbing)
                continue
            if p not in out:
                out.append(p)
        # x and not x / x or not x
        lits = {(p[1], p[2]) for p in out if p[0] == "lit"}
        for (s, pl) in lits:
            if (s, not pl) in lits:
                return ("const", absorbing)
        if not out:
            return ("const", not absorbing)
        if len(out) == 1:
            return out[0]
        # absorption: A or (A and B) = A ; A and (A or B) = A
        other = "and" if kind == "or" else "or"
        keep = []
        for p in out:
            sub = p[1] if p[0] == other else None
            if sub is not None and any(q in sub for q in out if q is not p and q[0] != other):
                continue
            keep.append(p)
        out = keep
        # factoring for the if/elif shape: (c and X) or (not c and Y) with X const-folded already handled above;
        # (c) or (not c and Y)  ->  c or Y
        if kind == "or":
            changed = True
            while changed:
                changed = False
                for p in list(out):
                    if p[0] != "lit":
                        continue
                    negp = ("lit", p[1], not p[2])
                    for i, q in enumerate(out):
                        if q[0] == "and" and negp in q[1]:
                            rest = [x for x in q[1] if x != negp]
                            out[i] = rest[0] if len(rest) == 1 else ("and", rest)
                            changed = True
                if changed:
                    return self._mk("or", out)
        if len(out) == 1:
            return out[0]
        return (kind, sorted(out, key=repr))

    MAX_ATOMS = 14

    @staticmethod
    def _atoms(b, acc: set) -> None:
        if b[0] == "lit":
            acc.add(b[1])
        elif b[0] in ("and", "or"):
            for x in b[1]:
                Printer._atoms(x, acc)

    @staticmethod
    def _evalb(b, asg: dict) -> bool:
        if b[0] == "const":
            return b[1]
        if b[0] == "lit":
            return asg[b[1]] == b[2]
        if b[0] == "and":
            return all(Printer._evalb(x, asg) for x in b[1])
        return any(Printer._evalb(x, asg) for x in b[1])

    def _eq_to_lt(self, bs: list, assume):
        """`K == T` next to an ordering atom `T < K'` over the same linear term: the equality is written as `T < K+1 and not T < K`, so
        `T < 2 and T != 1` and `T < 1` (integers) end up as one table over threshold atoms."""
        import re
        acc: set = set()
        for b in bs:
            self._atoms(b, acc)
        if assume is not None:
            self._atoms(assume, acc)
        lt_by_terms: dict = {}
        for a in sorted(acc):
            info = _LIN_ATOMS.get(a)
            if info and info[2] == "lt":
                mm = re.match(r"^Lt\((.+), (-?\d+)\)$", a)
                if mm and self._balanced(mm.group(1)):
                    lt_by_terms.setdefault(info[0], (mm.group(1), info[3]))
        sub: dict = {}
        for a in acc:
            info = _LIN_ATOMS.get(a)
            if info and info[2] == "eq" and info[0] in lt_by_terms:
                tp, nn = lt_by_terms[info[0]]
                k = info[1]
                hi, lo = f"Lt({tp}, {k + 1})", f"Lt({tp}, {k})"
                _LIN_ATOMS.setdefault(hi, (info[0], k + 1, "lt", info[3] | nn))
                _LIN_ATOMS.setdefault(lo, (info[0], k, "lt", info[3] | nn))
                sub[a] = (hi, lo)
        if not sub:
            return bs, assume

        def rw(b):
            if b[0] == "lit" and b[1] in sub:
                hi, lo = sub[b[1]]
                if b[2]:
                    return ("and", [("lit", hi, True), ("lit", lo, False)])
                return ("or", [("lit", hi, False), ("lit", lo, True)])
            if b[0] in ("and", "or"):
                return (b[0], [rw(x) for x in b[1]])
            return b

        return [rw(b) for b in bs], (rw(assume) if assume is not None else None)

    def _tables(self, bs: list) -> Optional[tuple[list, list]]:
        """Joint truth tables of several formulas over their relevant atoms: (atoms, [bits])."""
        assume = getattr(self, "assume", None)
        bs, assume = self._eq_to_lt(bs, assume)
        acc: set = set()
        for b in bs:
            self._atoms(b, acc)
        atoms = sorted(acc)
        if len(atoms) > self.MAX_ATOMS:
            return None
        if assume is not None:
            # printing under a path condition: combinations it excludes are don't-cares too (then projected away)
            self._atoms(assume, acc)
            atoms = sorted(acc)
            if len(atoms) > self.MAX_ATOMS:
                return None
        n = len(atoms)
        theory = _atom_theory(atoms)
        DC = None  # an impossible combination of atoms: don't care
        rows: list = []
        for i in range(1 << n):
            asg = {a: bool((i >> j) & 1) for j, a in enumerate(atoms)}
            if any(all(asg[a] == v for a, v in clash) for clash in theory):
                rows.append(DC)
                continue
            if assume is not None and not self._evalb(assume, asg):
                rows.append(DC)
                continue
            rows.append(tuple(self._evalb(b, asg) for b in bs))
        # drop atoms nothing depends on (on the possible combinations), projecting the table
        while True:
            n = len(atoms)
            drop = None
            for j in range(n):
                if all(rows[i] is DC or rows[i ^ (1 << j)] is DC or rows[i] == rows[i ^ (1 << j)] for i in range(1 << n)):
                    drop = j
                    break
            if drop is None:
                break
            lo = (1 << drop) - 1
            new_rows = []
            for i2 in range(1 << (n - 1)):
                i0 = ((i2 & ~lo) << 1) | (i2 & lo)
                a, b = rows[i0], rows[i0 | (1 << drop)]
                new_rows.append(a if a is not DC else b)
            rows = new_rows
            del atoms[drop]
        rows = [r if r is not DC else tuple(False for _ in bs) for r in rows]
        tabs = []
        for k in range(len(bs)):
            v = 0
            for i, r in enumerate(rows):
                if r[k]:
                    v |= 1 << i
            tabs.append(v)
        return atoms, tabs

    def _show_bool(self, b) -> str:
        if self.canonical and b[0] in ("and", "or"):
            t = self._tables([b])
            if t is not None:
                atoms, tabs = t
                if not atoms:
                    return "TRUE" if tabs[0] else "FALSE"
                if len(atoms) == 1:
                    return atoms[0] if tabs[0] == 2 else f"not({atoms[0]})"
                return "BOOL[" + "; ".join(atoms) + f"]#{tabs[0]:x}"
        if b[0] == "const":
            return "TRUE" if b[1] else "FALSE"
        if b[0] == "lit":
            return b[1] if b[2] else f"not({b[1]})"
        return "(" + f" {b[0]} ".join(self._show_bool(x) for x in b[1]) + ")"

    def show_cond(self, c: Cond) -> str:
        parts = []
        for e, pol in c:
            parts.append(self._bool(e, pol))
        b = self._mk("and", parts) if parts else ("const", True)
        return self._show_bool(b)

    # -- values ------------------------------------------------------------------------------
    def show(self, e: Optional[ast.AST]) -> str:
        if e is None:
            return "None"
        s = self._show(e)
        return s

    def _booltyped(self, e: ast.AST) -> bool:
        if isinstance(e, ast.Constant):
            return isinstance(e.value, bool)
        if isinstance(e, ast.Compare):
            return True
        if isinstance(e, ast.UnaryOp) and isinstance(e.op, ast.Not):
            return True
        if isinstance(e, ast.BoolOp):
            return all(self._booltyped(v) for v in e.values)
        if isinstance(e, ast.IfExp):
            return self._booltyped(e.body) and self._booltyped(e.orelse)
        if isinstance(e, ast.Call) and isinstance(e.func, ast.Name) and e.func.id in ("isinstance", "bool", "any", "all", "callable", "hasattr"):
            return True
        return False

    def _show(self, e: ast.AST, atom: bool = False) -> str:
        if self.canonical and not atom and not isinstance(e, ast.Constant) and self._booltyped(e) \
                and not (isinstance(e, ast.Call)):
            # a value that is a truth value: compare as a truth function, however it is spelled
            return "B:" + self.show_test(e)
        sh = self._show
        ver = getattr(e, "_ver", 0)
        suffix = f"@{ver}" if ver else ""
        if isinstance(e, ast.Name):
            if e.id in self.aliases:
                return self.aliases[e.id]
            s = self.params.get(e.id, e.id)
            return self.aliases.get(s, s)
        if isinstance(e, ast.Constant):
            return repr(e.value)
        if isinstance(e, ast.Attribute):
            s = f"{sh(e.value)}.{e.attr}{suffix}"
            return self.aliases.get(s, s)
        if isinstance(e, ast.Subscript):
            if isinstance(e.slice, ast.Constant) and e.slice.value == 0 and isinstance(e.value, ast.Call) and isinstance(e.value.func, ast.Attribute) \
                    and e.value.func.attr == "partition" and len(e.value.args) == 1 and not e.value.keywords:
                # X.partition(S)[0] is X.split(S, 1)[0]: the text in front of the first S
                return f"{sh(e.value.func.value)}.split({sh(e.value.args[0])}, 1)[0]{suffix}"
            s = f"{sh(e.value)}[{sh(e.slice)}]{suffix}"
            return self.aliases.get(s, s)
        if isinstance(e, ast.Slice):
            return f"{sh(e.lower) if e.lower else ''}:{sh(e.upper) if e.upper else ''}" + (f":{sh(e.step)}" if e.step else "")
        if self.canonical and self._table_get(e):
            # the value of TABLE.get(k) where it is used (its absence is a condition: see _bool) is TABLE[k]
            return f"{sh(e.func.value)}[{sh(e.args[0])}]"  # type: ignore[attr-defined]
        if isinstance(e, ast.Call):
            if isinstance(e.func, ast.Name) and e.func.id in ("any", "all") and len(e.args) == 1 and not e.keywords \
                    and isinstance(e.args[0], (ast.GeneratorExp, ast.ListComp)):
                g = copy.copy(e.args[0])
                g._truth_only = True  # type: ignore[attr-defined]
                body = sh(g)
                for k in ("ListComp(", "GeneratorExp("):
                    if body.startswith(k):
                        body = body[len(k):-1]
                return f"{e.func.id}({body})"
            if any(isinstance(a, ast.Starred) and isinstance(a.value, ast.Tuple) and not any(isinstance(x, ast.Starred) for x in a.value.elts) for a in e.args):
                # f(*(a, b)) is f(a, b)
                e = copy.copy(e)
                spliced: list = []
                for a in e.args:
                    if isinstance(a, ast.Starred) and isinstance(a.value, ast.Tuple) and not any(isinstance(x, ast.Starred) for x in a.value.elts):
                        spliced.extend(a.value.elts)
                    else:
                        spliced.append(a)
                e.args = spliced
            sig = self._sig(e)
            args = [sh(a) for a in e.args]
            # a comprehension that is consumed at once (join / sum / sorted / list / tuple / set / min / max / dict / next / enumerate):
            # list or generator makes no difference
            consumer = (isinstance(e.func, ast.Attribute) and e.func.attr == "join") or \
                (isinstance(e.func, ast.Name) and e.func.id in ("sum", "sorted", "list", "tuple", "set", "frozenset", "min", "max", "dict", "enumerate", "reversed"))
            if consumer and len(e.args) >= 1 and isinstance(e.args[0], ast.ListComp) and args[0].startswith("ListComp("):
                args[0] = "GeneratorExp(" + args[0][len("ListComp("):]
            kws = [(k.arg, sh(k.value)) for k in e.keywords]
            if sig is not None and len(e.args) <= len(sig) and not any(isinstance(a, ast.Starred) for a in e.args) \
                    and all(k.arg is not None for k in e.keywords):
                kws = [(sig[i], a) for i, a in enumerate(args)] + kws
                args = []
            kws.sort(key=lambda kv: (kv[0] or "", kv[1]))
            inner = ", ".join(args + [f"{k}={v}" if k else f"**{v}" for k, v in kws])
            return f"{sh(e.func)}({inner})"
        if isinstance(e, ast.Starred):
            return f"*{sh(e.value)}"
        if isinstance(e, ast.BinOp) and not getattr(e, "_lin_done", False) and (isinstance(e.op, (ast.Add, ast.Sub)) or (
                isinstance(e.op, ast.Mult) and any(isinstance(o, ast.BinOp) and isinstance(o.op, (ast.Add, ast.Sub)) for o in (e.left, e.right)))):
            simp = self._linear_simplify(e)
            if simp is not None:
                return sh(simp)
        if isinstance(e, ast.BinOp):
            op = type(e.op).__name__
            l, r = sh(e.left), sh(e.right)
            if op in ("Add", "Mult", "BitAnd", "BitOr", "BitXor"):
                # flatten + sort
                parts = self._flatten(e, type(e.op))
                if op == "Add" and any(_seqlike(p) for p in parts):
                    return "Cat(" + ", ".join(sh(p) for p in parts) + ")"  # concatenation: the order is the value
                return f"{op}(" + ", ".join(sorted(sh(p) for p in parts)) + ")"
            return f"{op}({l}, {r})"
        if isinstance(e, ast.UnaryOp):
            if isinstance(e.op, ast.Not):
                return self.show_test(e)
            return f"{type(e.op).__name__}({sh(e.operand)})"
        if isinstance(e, ast.BoolOp):
            op = "and" if isinstance(e.op, ast.And) else "or"
            return "(" + f" {op} ".join(sh(v) for v in e.values) + ")"
        if isinstance(e, ast.Compare):
            if len(e.ops) == 1:
                a, pol = self.atom(e)
                if not isinstance(a, ast.Compare):
                    return sh(a) if pol else f"not({sh(a)})"
                op = type(a.ops[0]).__name__
                l, r = sh(a.left), sh(a.comparators[0])
                if op in ("Eq", "Is") and r < l:
                    l, r = r, l
                if op in ("Gt", "GtE"):
                    op, l, r = {"Gt": "Lt", "GtE": "LtE"}[op], r, l
                s = f"{op}({l}, {r})"
                return s if pol else f"not({s})"
            return "Cmp(" + sh(e.left) + "".join(f" {type(o).__name__} {sh(c)}" for o, c in zip(e.ops, e.comparators)) + ")"
        if isinstance(e, ast.IfExp) and self.canonical:
            leaves: dict = {}
            self._cases(e, [], leaves)
            if len(leaves) == 1:
                return next(iter(leaves))
            keys = sorted(leaves)
            t = self._tables([self._mk("or", [self._mk("and", list(c)) if c else ("const", True) for c in leaves[k]]) for k in keys])
            if t is not None:
                atoms, tabs = t
                live = [(k, tb) for k, tb in zip(keys, tabs) if tb]
                if len(live) == 1:
                    return live[0][0]
                return "cases[" + "; ".join(atoms) + "]{" + "; ".join(f"{k} #{tb:x}" for k, tb in live) + "}"
        if isinstance(e, ast.IfExp):
            a, pol = self.atom(e.test)
            body, orelse = (e.body, e.orelse) if pol else (e.orelse, e.body)
            b, o = sh(body), sh(orelse)
            if b == o:
                return b
            t = self.show_test(a)
            if t == "TRUE":
                return b
            if t == "FALSE":
                return o
            if t.startswith("not(") and t.endswith(")") and t.count("(") == t.count(")") and self._balanced(t[4:-1]):
                t, b, o = t[4:-1], o, b
            return f"ite({t}, {b}, {o})"
        if isinstance(e, (ast.Tuple, ast.List, ast.Set)):
            # (E[0], E[1], E[2]) for a loop element E that is unpacked into exactly those components is E itself
            if isinstance(e, ast.Tuple) and len(e.elts) >= 2 and all(
                    isinstance(x, ast.Subscript) and isinstance(x.slice, ast.Constant) and x.slice.value == j and isinstance(x.value, ast.Call)
                    and isinstance(x.value.func, ast.Name) and x.value.func.id.startswith("ELEM") for j, x in enumerate(e.elts)) \
                    and len({ast.dump(x.value) for x in e.elts}) == 1:
                return sh(e.elts[0].value)  # type: ignore[attr-defined]
            br = {"Tuple": "()", "List": "[]", "Set": "{}"}[type(e).__name__]
            items = [sh(x) for x in e.elts]
            if isinstance(e, ast.Set):
                items.sort()
            return br[0] + ", ".join(items) + br[1]
        if isinstance(e, ast.Dict):
            return "{" + ", ".join(f"{sh(k) if k is not None else '**'}: {sh(v)}" for k, v in zip(e.keys, e.values)) + "}"
        if isinstance(e, (ast.ListComp, ast.SetComp, ast.GeneratorExp, ast.DictComp)):
            # canonical comprehension variables
            ren: dict = {}
            for g in e.generators:
                for n in ast.walk(g.target):
                    if isinstance(n, ast.Name) and n.id not in ren:
                        ren[n.id] = f"_c{len(ren)}"
            sub = Printer(self.model, [], {**self.aliases, **ren}, self.canonical)
            sub.params = {k: v for k, v in self.params.items() if k not in ren}
            conds = [sub.show_test(ast.BoolOp(op=ast.And(), values=list(g.ifs)) if len(g.ifs) > 1 else g.ifs[0]) if g.ifs else "" for g in e.generators]
            gens = " ".join(f"for {sub._show(g.target)} in {sub._show(g.iter)}" + (f" if {c}" if c else "") for g, c in zip(e.generators, conds))
            if isinstance(e, ast.DictComp):
                head = f"{sub._show(e.key)}: {sub._show(e.value)}"
            elif getattr(e, "_truth_only", False):
                head = sub.show_test(e.elt)  # any(...)/all(...): only the truth value of each element matters
            else:
                head = sub._show(e.elt)
            return f"{type(e).__name__}({head} {gens})"
        if isinstance(e, ast.JoinedStr):
            parts = []
            for v in e.values:
                if isinstance(v, ast.Constant):
                    parts.append(repr(v.value))
                elif isinstance(v, ast.FormattedValue):
                    spec = sh(v.format_spec) if v.format_spec is not None else ""
                    parts.append("{" + sh(v.value) + (f"!{chr(v.conversion)}" if v.conversion != -1 else "") + (":" + spec if spec else "") + "}")
            return "f(" + " ".join(parts) + ")"
        if isinstance(e, ast.NamedExpr):
            return sh(e.value)
        if isinstance(e, ast.AugAssign):
            return f"{sh(e.target)} {type(e.op).__name__}= {sh(e.value)}"
        if isinstance(e, ast.Assign):
            return f"{sh(e.targets[0])} := {sh(e.value)}"
        try:
            return "RAW(" + " ".join(ast.unparse(e).split()) + ")"
        except Exception:
            return type(e).__name__

    def _cases(self, e: ast.AST, cond: list, out: dict) -> None:
        if isinstance(e, ast.IfExp):
            self._cases(e.body, cond + [self._bool(e.test, True)], out)
            self._cases(e.orelse, cond + [self._bool(e.test, False)], out)
        else:
            out.setdefault(self._show(e), []).append(tuple(cond))

    def _linear_simplify(self, e: ast.AST) -> Optional[ast.AST]:
        """x + k - k, (s + 1) - 1, a + 2 + 3: when integer constants fold or terms cancel, the simplified tree; else None."""
        terms: dict = {}
        order: list = []
        const = [0]
        n_const = [0]
        n_terms = [0]
        distributed = [False]

        def rec(x: ast.AST, sign: int) -> bool:
            if isinstance(x, ast.BinOp) and isinstance(x.op, ast.Add):
                return rec(x.left, sign) and rec(x.right, sign)
            if isinstance(x, ast.BinOp) and isinstance(x.op, ast.Sub):
                return rec(x.left, sign) and rec(x.right, -sign)
            if isinstance(x, ast.UnaryOp) and isinstance(x.op, ast.USub):
                return rec(x.operand, -sign)
            if isinstance(x, ast.BinOp) and isinstance(x.op, ast.Mult):
                # (a + b) * c  ->  a*c + b*c      (one level: index arithmetic such as (i + 1) * size)
                for a_, b_ in ((x.left, x.right), (x.right, x.left)):
                    if isinstance(a_, ast.BinOp) and isinstance(a_.op, (ast.Add, ast.Sub)) and not _seqlike(a_) and not _seqlike(b_) \
                            and not isinstance(b_, ast.BinOp):
                        distributed[0] = True
                        l_ = ast.BinOp(left=a_.left, op=ast.Mult(), right=b_)
                        r_ = ast.BinOp(left=a_.right, op=ast.Mult(), right=b_)
                        return rec(l_, sign) and rec(r_, sign if isinstance(a_.op, ast.Add) else -sign)
                if isinstance(x.left, ast.Constant) and x.left.value == 1 and isinstance(x.left.value, int):
                    return rec(x.right, sign)
                if isinstance(x.right, ast.Constant) and x.right.value == 1 and isinstance(x.right.value, int):
                    return rec(x.left, sign)
            if isinstance(x, ast.Constant):
                if isinstance(x.value, int) and not isinstance(x.value, bool):
                    const[0] += sign * x.value
                    n_const[0] += 1
                    return True
                return False  # strings etc.: `+` is not arithmetic
            if _seqlike(x):
                return False  # concatenation
            if isinstance(x, ast.BinOp) and isinstance(x.op, ast.Mult):
                try:
                    x._lin_done = True  # type: ignore[attr-defined]  # a product that is not distributed is a term as it stands
                except Exception:
                    pass
            k = self._show(x)
            n_terms[0] += 1
            if k not in terms:
                terms[k] = [0, x]
                order.append(k)
            terms[k][0] += sign
            return True

        if not rec(e, 1):
            return None
        live = [(k, c, x) for k, (c, x) in terms.items() if c != 0]
        cancelled = len(live) < n_terms[0] and any(c == 0 for c, _ in terms.values())
        folded = n_const[0] > 1 or (n_const[0] == 1 and const[0] == 0)
        if not cancelled and not folded and not distributed[0]:
            return None
        pos = []
        neg = []
        for k, c, x in sorted(live, key=lambda t: t[0]):
            tgt = pos if c > 0 else neg
            for _ in range(abs(c)):
                tgt.append(copy.deepcopy(x))
        if const[0] > 0:
            pos.append(ast.Constant(value=const[0]))
        elif const[0] < 0:
            neg.append(ast.Constant(value=-const[0]))
        if not pos:
            out: ast.AST = ast.Constant(value=0)
        else:
            out = pos[0]
            for x in pos[1:]:
                out = ast.BinOp(left=out, op=ast.Add(), right=x)
        for x in neg:
            out = ast.BinOp(left=out, op=ast.Sub(), right=x)
        for n in ast.walk(out):
            if isinstance(n, ast.BinOp):
                n._lin_done = True  # type: ignore[attr-defined]
        return out

    @staticmethod
    def _balanced(s: str) -> bool:
        d = 0
        for ch in s:
            if ch == "(":
                d += 1
            elif ch == ")":
                d -= 1
                if d < 0:
                    return False
        return d == 0

    def _flatten(self, e: ast.AST, op) -> list:
        if isinstance(e, ast.BinOp) and isinstance(e.op, op):
            return self._flatten(e.left, op) + self._flatten(e.right, op)
        return [e]


def flow_of(fn: FuncInfo, model: Optional[Model] = None, aliases: Optional[dict] = None) -> Flow:
    w = _Walker(fn, model)
    env: dict = {}
    end = w.block(body_without_docstring(fn.node), env, ())
    if end is not None and w.flow.returns:
        # falling off the end returns None (only recorded when the function also returns explicitly)
        w.flow.returns.append(Ret(end[1], None, fn.node))
    a = fn.node.args
    params = [x.arg for x in a.posonlyargs + a.args + a.kwonlyargs]
    w.flow.printer = Printer(model, params, aliases)
    w.flow.cprinter = Printer(model, params, aliases, canonical=True)
    return w.flow


def parse_expr(src: str) -> ast.AST:
    return ast.parse(src, mode="eval").body
