"""Reference formulations of the TOY assembler's two placement passes (C19), compared through sa.flowspec.

`_write_data`: data grows downward from the top address of the memory, the elements of one declaration ascending,
a declaration that would reach below address 0 is rejected, every declaration binds its name to its first element.
`_load_instructions`: instruction i is written at address i as its 16-bit encoding, max_pc = len - 1, a program that
collides with the data is rejected, a label operand is only looked up when no numeric operand was given.
"""
from __future__ import annotations

from .flowspec import compare
from .report import Ctx

WRITE_DATA_REF = '''
def _write_data(self):
    self.last_address_not_used_by_data = max(self.state.memory.address_range)
    for line_number, line, line_parsed in self.data:
        if isinstance(line_parsed, str) or line_parsed.get_name() != 'variable_declaration':
            raise ParserDataSyntaxException(line_number=line_number, line=line)
        else:
            values_to_write = line_parsed[0].get('values')
            self.last_address_not_used_by_data -= len(values_to_write)
            write_address = self.last_address_not_used_by_data + 1
            if write_address < 0:
                raise MemorySizeException(max(self.state.memory.address_range) + 1)
            self._add_label_mapping(label=line_parsed[0].get('name'), value=write_address, line=line, line_number=line_number)
            for value in values_to_write:
                self.state.memory.write_halfword(write_address, UInt16(self._value_to_int(value, line_number, line)))
                write_address += 1
'''

LOAD_INSTRUCTIONS_REF = '''
def _load_instructions(self):
    instructions = []
    for linenumber, line, tokens in self.text:
        if not tokens.mnemonic:
            if tokens.variable_declaration:
                raise ParserDataSyntaxException(linenumber, line)
            continue
        mnemonic = tokens.mnemonic.upper()
        instruction_class = instruction_map[mnemonic]
        if issubclass(instruction_class, AddressTypeInstruction):
            if tokens.address:
                address = self._value_to_int(tokens.address, linenumber, line)
            else:
                try:
                    address = self.labels[tokens.label]
                except KeyError:
                    raise ParserLabelException(line_number=linenumber, line=line, label=tokens.label)
            instructions.append(instruction_class(address=address))
        else:
            instructions.append(instruction_class())
    if len(instructions) - 1 > self.last_address_not_used_by_data:
        raise MemorySizeException(max(self.state.memory.address_range) + 1)
    self.state.max_pc = len(instructions) - 1
    for addr, instr in enumerate(instructions):
        self.state.memory.write_halfword(addr, UInt16(int(instr)))
    if len(instructions) >= 1:
        self.state.loaded_instruction = instructions[0]
        self.state.visualisation_values = SvgVisValues(pc_old=UInt16(0), ram_out=UInt16(int(instructions[0])))
'''


def placement_rules(ctx: Ctx, r) -> None:
    m = ctx.model
    compare(r, m, m.method("ToyParser", "_write_data"), WRITE_DATA_REF, "ToyParser._write_data",
            what="data is allocated downward from the top address with ascending elements; overflow below 0 is rejected")
    compare(r, m, m.method("ToyParser", "_load_instructions"), LOAD_INSTRUCTIONS_REF, "ToyParser._load_instructions",
            what="instruction i is written at address i as its 16-bit encoding, max_pc = len - 1, collision with data is rejected")
