"""Reference formulations of the TOY half-steps (shared by C06 / C20), compared through sa.flowspec."""
from __future__ import annotations

from .flowspec import compare
from .report import Ctx

FIRST_REF = '''
def first_cycle_step(self):
    if self.is_done():
        return
    if not self.next_cycle == 1:
        raise StepSequenceError("...")
    self.has_started = True
    self.next_cycle = 2
    self.state.loaded_instruction.behavior(self.state)
    self.state.address_of_current_instruction = self.state.address_of_next_instruction
    self.state.address_of_next_instruction = int(self.state.program_counter)
    self.state.performance_metrics.cycles += 1
'''

SECOND_REF = '''
def second_cycle_step(self):
    if self.is_done():
        return
    if not self.next_cycle == 2:
        raise StepSequenceError("...")
    old_op_code = self.state.loaded_instruction.op_code_value()
    self.state.visualisation_values = SvgVisValues(op_code_old=old_op_code, pc_old=self.state.program_counter)
    self.state.visualisation_values.ram_out = self.state.memory.read_halfword(int(self.state.program_counter))
    if self.state.program_counter <= self.state.max_pc:
        self.state.loaded_instruction = ToyInstruction.from_integer(int(self.state.visualisation_values.ram_out))
    else:
        self.state.loaded_instruction = None
    self.state.program_counter += UInt12(1)
    self.state.performance_metrics.instruction_count += 1
    self.state.performance_metrics.cycles += 1
    self.next_cycle = 1
'''


def _no_raise_text(kind: str, s: str) -> bool:
    # the wording of the StepSequenceError message is not part of any property
    return kind != "raise"


def fetch_keep(kind: str, s: str) -> bool:
    return kind != "raise" and (".loaded_instruction" in s or ".program_counter" in s or ".read_halfword(" in s or ".behavior(" in s)


def cost_keep(kind: str, s: str) -> bool:
    return kind == "store" and ".performance_metrics." in s


def half_steps(ctx: Ctx, r, keep, what_first: str, what_second: str) -> None:
    m = ctx.model
    compare(r, m, m.method("ToySimulation", "first_cycle_step"), FIRST_REF, "ToySimulation.first_cycle_step", keep=keep, returns=False, what=what_first)
    compare(r, m, m.method("ToySimulation", "second_cycle_step"), SECOND_REF, "ToySimulation.second_cycle_step", keep=keep, returns=False, what=what_second)
