"""Annotation-driven, flow-insensitive receiver typing and call resolution (CHA).

Types are frozensets of atoms:
  ('cls', ClassInfo)     instance of a package class (dispatch covers subclasses)
  ('type', ClassInfo)    the class object itself
  ('list', T) ('dict', K, V) ('tuple', (T, ...))
  ('ext', dotted-name)   anything external (int, str, fixedint.UInt32, ...)
  ('bound', FuncInfo, recv_type)    a bound method value
The empty set means "unknown".
"""
from __future__ import annotations

import ast
from dataclasses import dataclass, field
from typing import Optional, Union

from .model import ClassInfo, FuncInfo, Model, ModuleInfo, dotted, walk_no_nested

Type = frozenset
EMPTY: Type = frozenset()

IMMUTABLE_EXT = {
    "int", "str", "bool", "float", "NoneType", "bytes", "complex", "range",
    "fixedint.UInt8", "fixedint.UInt16", "fixedint.UInt32", "fixedint.UInt64",
    "fixedint.Int8", "fixedint.Int16", "fixedint.Int32", "fixedint.Int64",
    "fixedint.aliases.UInt8", "fixedint.aliases.UInt16", "fixedint.aliases.UInt32",
    "fixedint.aliases.UInt64", "UInt12", "num",
}


def t_cls(c: ClassInfo) -> Type:
    return frozenset({("cls", c)})


def t_ext(n: str) -> Type:
    return frozenset({("ext", n)})


def classes_of(t: Type) -> set[ClassInfo]:
    return {a[1] for a in t if a[0] == "cls"}


def elem_of(t: Type) -> Type:
    out: set = set()
    for a in t:
        if a[0] == "list":
            out |= a[1]
        elif a[0] == "dict":
            out |= a[1]  # iterating a dict yields keys
        elif a[0] == "tuple":
            for x in a[1]:
                out |= x
    return frozenset(out)


def is_immutable(t: Type) -> bool:
    if not t:
        return False
    for a in t:
        if a[0] == "ext" and a[1] in IMMUTABLE_EXT:
            continue
        if a[0] == "tuple" and all(is_immutable(x) for x in a[1]):
            continue
        return False
    return True


def class_sequence(model, mod, e: ast.AST, depth: int = 0):
    """Fold an expression to a list of classes: a tuple/list of class names, `tuple(..)`/`list(..)` of one,
    `<dict literal or module dict>.values()`, or a module-level name bound to one of these.  None otherwise."""
    if depth > 6 or e is None:
        return None
    if isinstance(e, (ast.Tuple, ast.List)):
        out = [model.resolve_class(mod, x) for x in e.elts]
        return out if out and all(c is not None for c in out) else None
    if isinstance(e, ast.Name):
        return class_sequence(model, mod, mod.assigns.get(e.id), depth + 1)
    if isinstance(e, ast.Call) and isinstance(e.func, ast.Name) and e.func.id in ("tuple", "list") and len(e.args) == 1:
        return class_sequence(model, mod, e.args[0], depth + 1)
    if isinstance(e, ast.Call) and isinstance(e.func, ast.Attribute) and e.func.attr == "values" and not e.args:
        d = e.func.value
        if isinstance(d, ast.Name):
            d = mod.assigns.get(d.id)
        if isinstance(d, ast.Dict):
            out = [model.resolve_class(mod, x) for x in d.values]
            return out if out and all(c is not None for c in out) else None
    # concatenation and repetition: tuple(map.values()) + (NOP,) * (16 - len(map))   (the count folds to a constant)
    if isinstance(e, ast.BinOp) and isinstance(e.op, ast.Add):
        a, b = class_sequence(model, mod, e.left, depth + 1), class_sequence(model, mod, e.right, depth + 1)
        return a + b if a is not None and b is not None else None
    if isinstance(e, ast.BinOp) and isinstance(e.op, ast.Mult):
        for seq_e, n_e in ((e.left, e.right), (e.right, e.left)):
            seq = class_sequence(model, mod, seq_e, depth + 1)
            if seq is None:
                continue
            n = _fold_count(model, mod, n_e)
            if isinstance(n, int) and 0 <= n <= 64:
                return seq * n
        return None
    return None


def _fold_count(model, mod, e: ast.AST):
    """An integer expression over constants, named constants and len(<module dict / class sequence>)."""
    if isinstance(e, ast.Constant) and isinstance(e.value, int) and not isinstance(e.value, bool):
        return e.value
    if isinstance(e, ast.Call) and isinstance(e.func, ast.Name) and e.func.id == "len" and len(e.args) == 1:
        a = e.args[0]
        d = mod.assigns.get(a.id) if isinstance(a, ast.Name) else a
        if isinstance(d, ast.Dict):
            return len(d.keys)
        seq = class_sequence(model, mod, a)
        return len(seq) if seq is not None else None
    if isinstance(e, ast.BinOp) and isinstance(e.op, (ast.Add, ast.Sub, ast.Mult, ast.LShift, ast.FloorDiv)):
        l, r = _fold_count(model, mod, e.left), _fold_count(model, mod, e.right)
        if isinstance(l, int) and isinstance(r, int):
            try:
                return {ast.Add: l + r, ast.Sub: l - r, ast.Mult: l * r, ast.LShift: l << r if 0 <= r < 32 else None,
                        ast.FloorDiv: l // r if r else None}[type(e.op)]
            except Exception:
                return None
        return None
    try:
        from .consteval import Folder
        v = Folder(model, mod, None, None).fold(e)
        return v if isinstance(v, int) and not isinstance(v, bool) else None
    except Exception:
        return None


@dataclass
class Binding:
    kind: str  # expr | iter | unpack | with | other
    expr: Optional[ast.AST] = None
    index: Optional[int] = None  # for unpack
    inner: Optional["Binding"] = None  # unpack of an iter element etc.
    ann: Optional[ast.AST] = None


class FuncEnv:
    """Per-function name bindings (flow-insensitive)."""

    def __init__(self, ts: "TypeSys", fn: FuncInfo) -> None:
        self.ts, self.fn = ts, fn
        self.params = fn.params
        a = fn.node.args
        self.vararg = a.vararg.arg if a.vararg else None
        self.kwarg = a.kwarg.arg if a.kwarg else None
        self.param_ann: dict[str, Optional[ast.AST]] = {}
        self.param_default: dict[str, ast.AST] = {}
        pos = a.posonlyargs + a.args
        for p, d in zip(pos[len(pos) - len(a.defaults):], a.defaults):
            self.param_default[p.arg] = d
        for p, d in zip(a.kwonlyargs, a.kw_defaults):
            if d is not None:
                self.param_default[p.arg] = d
        for p in pos + a.kwonlyargs:
            self.param_ann[p.arg] = p.annotation
        self.bindings: dict[str, list[Binding]] = {}
        self.globals_declared: set[str] = set()
        self.assigned_params: set[str] = set()
        self._collect()

    def _bind(self, target: ast.AST, b: Binding) -> None:
        if isinstance(target, ast.Name):
            self.bindings.setdefault(target.id, []).append(b)
            if target.id in self.params:
                self.assigned_params.add(target.id)
        elif isinstance(target, (ast.Tuple, ast.List)):
            for i, t in enumerate(target.elts):
                if isinstance(t, ast.Starred):
                    self._bind(t.value, Binding("other"))
                else:
                    self._bind(t, Binding("unpack", index=i, inner=b))
        # attribute / subscript targets bind no local name

    def _collect(self) -> None:
        for n in walk_no_nested(self.fn.node):
            if isinstance(n, ast.Assign):
                for t in n.targets:
                    self._bind(t, Binding("expr", n.value))
            elif isinstance(n, ast.AnnAssign):
                if n.value is not None:
                    self._bind(n.target, Binding("expr", n.value, ann=n.annotation))
                else:
                    self._bind(n.target, Binding("other", ann=n.annotation))
            elif isinstance(n, ast.AugAssign):
                self._bind(n.target, Binding("expr", n.value))
            elif isinstance(n, (ast.For, ast.AsyncFor)):
                self._bind(n.target, Binding("iter", n.iter))
            elif isinstance(n, ast.comprehension):
                self._bind(n.target, Binding("iter", n.iter))
            elif isinstance(n, (ast.With, ast.AsyncWith)):
                for it in n.items:
                    if it.optional_vars is not None:
                        self._bind(it.optional_vars, Binding("with", it.context_expr))
            elif isinstance(n, ast.NamedExpr):
                self._bind(n.target, Binding("expr", n.value))
            elif isinstance(n, ast.ExceptHandler):
                if n.name:
                    self.bindings.setdefault(n.name, []).append(Binding("other"))
            elif isinstance(n, (ast.Global, ast.Nonlocal)):
                self.globals_declared |= set(n.names)
            elif isinstance(n, (ast.Import, ast.ImportFrom)):
                for al in n.names:
                    self.bindings.setdefault(al.asname or al.name.split(".")[0], []).append(Binding("other"))
            elif isinstance(n, ast.MatchAs) and n.name:
                self.bindings.setdefault(n.name, []).append(Binding("other"))

    def is_local(self, name: str) -> bool:
        return (name in self.bindings or name in self.params
                or name == self.vararg or name == self.kwarg) and name not in self.globals_declared


class TypeSys:
    def __init__(self, model: Model) -> None:
        self.model = model
        self._envs: dict[FuncInfo, FuncEnv] = {}
        self._attr_cache: dict[tuple[ClassInfo, str], Type] = {}
        self._ret_cache: dict[FuncInfo, Type] = {}
        self._busy: set = set()
        self._cuts = 0
        self._tcache: dict[int, Type] = {}

    def env(self, fn: FuncInfo) -> FuncEnv:
        if fn not in self._envs:
            self._envs[fn] = FuncEnv(self, fn)
        return self._envs[fn]

    # ----------------------------------------------------------- annotations
    def ann_type(self, m: ModuleInfo, e: Optional[ast.AST]) -> Type:
        if e is None:
            return EMPTY
        if isinstance(e, ast.Constant):
            if isinstance(e.value, str):
                try:
                    return self.ann_type(m, ast.parse(e.value, mode="eval").body)
                except SyntaxError:
                    return EMPTY
            if e.value is None:
                return t_ext("NoneType")
            return EMPTY
        if isinstance(e, ast.BinOp) and isinstance(e.op, ast.BitOr):
            return self.ann_type(m, e.left) | self.ann_type(m, e.right)
        if isinstance(e, ast.Subscript):
            head = dotted(e.value) or ""
            h = head.split(".")[-1]
            args = list(e.slice.elts) if isinstance(e.slice, ast.Tuple) else [e.slice]
            if h in ("Optional", "Union"):
                out: Type = EMPTY
                for a in args:
                    out = out | self.ann_type(m, a)
                return out
            if h in ("list", "List", "Sequence", "Iterable", "Iterator", "set", "Set", "frozenset"):
                return frozenset({("list", self.ann_type(m, args[0]))})
            if h in ("dict", "Dict", "Mapping", "defaultdict"):
                if len(args) == 2:
                    return frozenset({("dict", self.ann_type(m, args[0]), self.ann_type(m, args[1]))})
                return EMPTY
            if h in ("tuple", "Tuple"):
                if len(args) == 2 and isinstance(args[1], ast.Constant) and args[1].value is Ellipsis:
                    return frozenset({("list", self.ann_type(m, args[0]))})
                return frozenset({("tuple", tuple(self.ann_type(m, a) for a in args))})
            if h in ("type", "Type"):
                inner = self.ann_type(m, args[0])
                return frozenset(("type", c) for c in classes_of(inner)) or t_ext("type")
            r = self.model.resolve_expr(m, e.value)
            if isinstance(r, ClassInfo):
                return t_cls(r)
            return EMPTY
        if isinstance(e, (ast.Name, ast.Attribute)):
            r = self.model.resolve_expr(m, e)
            if isinstance(r, ClassInfo):
                return t_cls(r)
            d = dotted(e) or ""
            if isinstance(r, tuple) and r[0] == "ext":
                d = r[1]
            if isinstance(r, tuple) and r[0] == "assign":
                v = r[1].assigns.get(r[2])
                if isinstance(v, ast.Call) and (dotted(v.func) or "").split(".")[-1] == "TypeVar":
                    return EMPTY
                # type alias such as UInt12 = fixedint.FixedInt(...)
                return t_ext(r[2])
            last = d.split(".")[-1]
            if last in ("Any", "T", "object"):
                return EMPTY
            if last == "None":
                return t_ext("NoneType")
            if d in ("int", "str", "bool", "float", "bytes", "range"):
                return t_ext(d)
            if d:
                return t_ext(d)
        return EMPTY

    # ------------------------------------------------------------ attributes
    def attr_type(self, c: ClassInfo, attr: str) -> Type:
        key = (c, attr)
        if key in self._attr_cache:
            return self._attr_cache[key]
        if key in self._busy:
            self._cuts += 1
            return EMPTY
        self._busy.add(key)
        try:
            out: Type = EMPTY
            hit = self.model.lookup_ann(c, attr)
            if hit is not None:
                out = out | self.ann_type(hit[0].module, hit[1])
            f = self.model.lookup(c, attr)
            if f is not None:
                out = out | frozenset({("bound", f, c)})
            if not out or True:
                # instance assignments self.attr = ... anywhere in the MRO
                for k in self.model.mro(c):
                    for meth in k.methods.values():
                        if not meth.params:
                            continue
                        selfname = meth.params[0]
                        for n in walk_no_nested(meth.node):
                            tgt = val = ann = None
                            if isinstance(n, ast.Assign):
                                for t in n.targets:
                                    if _is_self_attr(t, selfname, attr):
                                        tgt, val = t, n.value
                            elif isinstance(n, ast.AnnAssign) and _is_self_attr(n.target, selfname, attr):
                                tgt, val, ann = n.target, n.value, n.annotation
                            if tgt is None:
                                continue
                            if ann is not None:
                                out = out | self.ann_type(k.module, ann)
                            elif val is not None and hit is None:
                                out = out | self.type_of(val, meth)
            if not out:
                ca = self.model.lookup_assign(c, attr)
                if ca is not None:
                    out = self._literal_type(ca[0].module, ca[1])
            self._attr_cache[key] = out
            return out
        finally:
            self._busy.discard(key)

    def _literal_type(self, m: ModuleInfo, e: ast.AST) -> Type:
        if isinstance(e, ast.Constant):
            return t_ext(type(e.value).__name__)
        if isinstance(e, (ast.List, ast.ListComp, ast.Set)):
            return frozenset({("list", EMPTY)})
        if isinstance(e, ast.Dict):
            return frozenset({("dict", EMPTY, EMPTY)})
        return EMPTY

    # ----------------------------------------------------------- expressions
    def name_type(self, name: str, fn: FuncInfo) -> Type:
        env = self.env(fn)
        key = ("name", fn, name)
        if key in self._busy:
            self._cuts += 1
            return EMPTY
        self._busy.add(key)
        try:
            out: Type = EMPTY
            if name in env.params:
                idx = env.params.index(name)
                if idx == 0 and fn.cls is not None and not fn.is_staticmethod:
                    if fn.is_classmethod:
                        return frozenset({("type", fn.cls)})
                    return t_cls(fn.cls)
                out = out | self.ann_type(fn.module, env.param_ann.get(name))
                if not out and name in env.param_default:
                    out = out | self.type_of(env.param_default[name], fn)
            for b in env.bindings.get(name, []):
                out = out | self.binding_type(b, fn)
            if out or env.is_local(name):
                return out
            r = self.model.resolve_name(fn.module, name)
            if isinstance(r, ClassInfo):
                return frozenset({("type", r)})
            if isinstance(r, tuple) and r[0] == "assign":
                m2 = r[1]
                return self._module_assign_type(m2, r[2])
            return EMPTY
        finally:
            self._busy.discard(key)

    def _module_assign_type(self, m: ModuleInfo, name: str) -> Type:
        e = m.assigns[name]
        # annotated module-level dict such as instruction_map: dict[str, Type[X]]
        for st in m.tree.body:
            if isinstance(st, ast.AnnAssign) and isinstance(st.target, ast.Name) and st.target.id == name:
                return self.ann_type(m, st.annotation)
        return self._literal_type(m, e)

    def binding_type(self, b: Binding, fn: FuncInfo) -> Type:
        if b.ann is not None:
            t = self.ann_type(fn.module, b.ann)
            if t:
                return t
        if b.kind == "expr" and b.expr is not None:
            return self.type_of(b.expr, fn)
        if b.kind == "iter" and b.expr is not None:
            return elem_of(self.type_of(b.expr, fn))
        if b.kind == "with" and b.expr is not None:
            return self.type_of(b.expr, fn)
        if b.kind == "unpack" and b.inner is not None:
            inner = self.binding_type(b.inner, fn)
            out: set = set()
            for a in inner:
                if a[0] == "tuple" and b.index is not None and b.index < len(a[1]):
                    out |= a[1][b.index]
                elif a[0] == "list":
                    out |= a[1]
            return frozenset(out)
        return EMPTY

    def type_of(self, e: ast.AST, fn: FuncInfo) -> Type:
        k = id(e)
        if k in self._tcache:
            return self._tcache[k]
        key = ("expr", k)
        if key in self._busy:
            self._cuts += 1
            return EMPTY
        self._busy.add(key)
        c0 = self._cuts
        try:
            t = self._type_of(e, fn)
            if self._cuts == c0:
                self._tcache[k] = t
            return t
        finally:
            self._busy.discard(key)

    def _type_of(self, e: ast.AST, fn: FuncInfo) -> Type:
        m = fn.module
        if isinstance(e, ast.Constant):
            return t_ext(type(e.value).__name__)
        if isinstance(e, ast.JoinedStr):
            return t_ext("str")
        if isinstance(e, ast.Name):
            return self.name_type(e.id, fn)
        if isinstance(e, ast.NamedExpr):
            return self.type_of(e.value, fn)
        if isinstance(e, ast.Attribute):
            base = self.type_of(e.value, fn)
            out: Type = EMPTY
            for a in base:
                if a[0] == "cls":
                    out = out | self.attr_type(a[1], e.attr)
                elif a[0] == "type":
                    f = self.model.lookup(a[1], e.attr)
                    if f is not None:
                        out = out | frozenset({("bound", f, a[1])})
                    hit = self.model.lookup_ann(a[1], e.attr)
                    if hit is not None:
                        out = out | self.ann_type(hit[0].module, hit[1])
            if not out:
                r = self.model.resolve_expr(m, e)
                if isinstance(r, ClassInfo):
                    return frozenset({("type", r)})
                if isinstance(r, tuple) and r[0] == "assign":
                    return self._module_assign_type(r[1], r[2])
            return out
        if isinstance(e, ast.Subscript):
            base = self.type_of(e.value, fn)
            if isinstance(e.slice, ast.Slice):
                return frozenset(a for a in base if a[0] in ("list", "ext"))
            out_s: set = set()
            for a in base:
                if a[0] == "list":
                    out_s |= a[1]
                elif a[0] == "dict":
                    out_s |= a[2]
                elif a[0] == "tuple":
                    if isinstance(e.slice, ast.Constant) and isinstance(e.slice.value, int) and -len(a[1]) <= e.slice.value < len(a[1]):
                        out_s |= a[1][e.slice.value]
                    else:
                        for x in a[1]:
                            out_s |= x
                elif a[0] == "type":
                    out_s.add(a)  # Generic[T] subscription of a class object
            return frozenset(out_s)
        if isinstance(e, ast.IfExp):
            return self.type_of(e.body, fn) | self.type_of(e.orelse, fn)
        if isinstance(e, ast.BoolOp):
            out = EMPTY
            for v in e.values:
                out = out | self.type_of(v, fn)
            return out
        if isinstance(e, (ast.Compare,)):
            return t_ext("bool")
        if isinstance(e, ast.UnaryOp):
            if isinstance(e.op, ast.Not):
                return t_ext("bool")
            return self.type_of(e.operand, fn)
        if isinstance(e, ast.BinOp):
            l, r = self.type_of(e.left, fn), self.type_of(e.right, fn)
            if any(a[0] == "list" for a in l):
                return frozenset(a for a in (l | r) if a[0] == "list")
            if is_immutable(l) and is_immutable(r):
                return l if any(a[1].startswith("fixedint") for a in l if a[0] == "ext") else (r if r else l)
            return t_ext("num") if (is_immutable(l) or is_immutable(r)) else EMPTY
        if isinstance(e, (ast.List, ast.Set)):
            el: Type = EMPTY
            for x in e.elts:
                el = el | self.type_of(x, fn)
            return frozenset({("list", el)})
        if isinstance(e, ast.Tuple):
            return frozenset({("tuple", tuple(self.type_of(x, fn) for x in e.elts))})
        if isinstance(e, ast.Dict):
            kt: Type = EMPTY
            vt: Type = EMPTY
            for k, v in zip(e.keys, e.values):
                if k is not None:
                    kt = kt | self.type_of(k, fn)
                vt = vt | self.type_of(v, fn)
            return frozenset({("dict", kt, vt)})
        if isinstance(e, (ast.ListComp, ast.SetComp, ast.GeneratorExp)):
            return frozenset({("list", self.type_of(e.elt, fn))})
        if isinstance(e, ast.DictComp):
            return frozenset({("dict", self.type_of(e.key, fn), self.type_of(e.value, fn))})
        if isinstance(e, ast.Call):
            return self.call_type(e, fn)
        if isinstance(e, ast.Starred):
            return self.type_of(e.value, fn)
        return EMPTY

    def return_type(self, f: FuncInfo) -> Type:
        if f in self._ret_cache:
            return self._ret_cache[f]
        key = ("ret", f)
        if key in self._busy:
            self._cuts += 1
            return EMPTY
        self._busy.add(key)
        try:
            t = self.ann_type(f.module, f.node.returns)
            if not t and f.node.returns is None:
                for n in walk_no_nested(f.node):
                    if isinstance(n, ast.Return) and n.value is not None:
                        t = t | self.type_of(n.value, f)
            self._ret_cache[f] = t
            return t
        finally:
            self._busy.discard(key)

    def call_type(self, e: ast.Call, fn: FuncInfo) -> Type:
        res = self.resolve_call(e, fn)
        if res.kind == "ctor":
            return frozenset(("cls", c) for c in res.classes)
        if res.kind in ("func", "method", "classcall", "indirect", "super"):
            out: Type = EMPTY
            for t in res.targets:
                out = out | self.return_type(t)
            return out
        if res.kind == "ext":
            n = res.ext_name or ""
            args = e.args
            if n in ("list", "sorted", "reversed", "tuple", "set", "iter"):
                if args:
                    t = self.type_of(args[0], fn)
                    return frozenset({("list", elem_of(t))})
                return frozenset({("list", EMPTY)})
            if n == "enumerate" and args:
                return frozenset({("list", frozenset({("tuple", (t_ext("int"), elem_of(self.type_of(args[0], fn))))}))})
            if n == "zip":
                return frozenset({("list", frozenset({("tuple", tuple(elem_of(self.type_of(a, fn)) for a in args))}))})
            if n == "dict":
                return frozenset({("dict", EMPTY, EMPTY)})
            if n in ("int", "len", "ord", "abs", "sum", "min", "max", "pow", "round", "hash", "id"):
                return t_ext("int")
            if n in ("str", "repr", "hex", "bin", "chr", "format"):
                return t_ext("str")
            if n in ("bool", "isinstance", "issubclass", "all", "any", "callable", "hasattr"):
                return t_ext("bool")
            if n == "range":
                return frozenset({("list", t_ext("int"))})
            if n == "type" and len(args) == 1:
                return frozenset(("type", c) for c in classes_of(self.type_of(args[0], fn)))
            if n.startswith("fixedint.") or n in ("UInt12",):
                return t_ext(n)
            if n == "float" or n.startswith("time.") or n.startswith("math."):
                return t_ext("float")
            if n in ("items",):
                # dict.items()
                if isinstance(e.func, ast.Attribute):
                    bt = self.type_of(e.func.value, fn)
                    out_s: set = set()
                    for a in bt:
                        if a[0] == "dict":
                            out_s.add(("list", frozenset({("tuple", (a[1], a[2]))})))
                    return frozenset(out_s)
            if n in ("values",) and isinstance(e.func, ast.Attribute):
                bt = self.type_of(e.func.value, fn)
                return frozenset(("list", a[2]) for a in bt if a[0] == "dict")
            if n in ("keys",) and isinstance(e.func, ast.Attribute):
                bt = self.type_of(e.func.value, fn)
                return frozenset(("list", a[1]) for a in bt if a[0] == "dict")
            if n in ("get", "pop", "setdefault") and isinstance(e.func, ast.Attribute):
                bt = self.type_of(e.func.value, fn)
                out_g: set = set()
                for a in bt:
                    if a[0] == "dict":
                        out_g |= a[2]
                    elif a[0] == "list":
                        out_g |= a[1]
                return frozenset(out_g)
            if n in ("format", "join", "strip", "lower", "upper", "replace", "split", "splitlines",
                     "startswith", "endswith", "__repr__", "__str__"):
                return t_ext("str")
        return EMPTY

    # ------------------------------------------------------- call resolution
    def resolve_call(self, e: ast.Call, fn: FuncInfo) -> "CallRes":
        f = e.func
        m = fn.module
        env = self.env(fn)
        # super().m(...)
        if isinstance(f, ast.Attribute) and isinstance(f.value, ast.Call) and isinstance(f.value.func, ast.Name) \
                and f.value.func.id == "super" and fn.cls is not None:
            mro = self.model.mro(fn.cls)
            for k in mro[1:]:
                if f.attr in k.methods:
                    return CallRes("super", {k.methods[f.attr]}, recv=ast.Name(id=fn.params[0], ctx=ast.Load()) if fn.params else None)
            ext = sorted(self.model.external_bases(fn.cls))
            return CallRes("ext", ext_name=f.attr, ext_recv=f"super:{','.join(ext)}",
                           recv=ast.Name(id=fn.params[0], ctx=ast.Load()) if fn.params else None)
        if isinstance(f, ast.IfExp):
            # (A if c else B)(...): any of the arms (an arm that stands for a failed table lookup calls nothing)
            arms = []
            stack = [f]
            while stack:
                x = stack.pop()
                if isinstance(x, ast.IfExp):
                    stack.extend([x.body, x.orelse])
                elif isinstance(x, ast.Call) and isinstance(x.func, ast.Name) and x.func.id == "KEY_ERROR":
                    continue
                else:
                    arms.append(x)
            res = [self.resolve_call(ast.copy_location(ast.Call(func=a, args=e.args, keywords=e.keywords), e), fn) for a in arms]
            if res and all(r_.kind == "ctor" for r_ in res):
                ks = set().union(*[r_.classes or set() for r_ in res])
                return CallRes("ctor", self._ctor_targets(ks), classes=ks)
            if res and all(r_.kind in ("method", "func", "ctor", "super", "classcall", "unboundcall") for r_ in res) and len({r_.kind for r_ in res}) == 1:
                out = res[0]
                for r_ in res[1:]:
                    out.targets |= r_.targets
                return out
        if isinstance(f, ast.Subscript):
            # table[i](...): a module-level sequence of classes (e.g. tuple(instruction_map.values())) -> any of them
            seq = class_sequence(self.model, m, f.value)
            if seq:
                ks = set(seq)
                return CallRes("ctor", self._ctor_targets(ks), classes=ks)
            # Cache[UInt32](...)
            inner = ast.Call(func=f.value, args=e.args, keywords=e.keywords)
            ast.copy_location(inner, e)
            return self.resolve_call(inner, fn)
        if isinstance(f, ast.Name):
            if env.is_local(f.id):
                t = self.name_type(f.id, fn)
                return self._call_on_value(t, f.id)
            r = self.model.resolve_name(m, f.id)
            if isinstance(r, ClassInfo):
                return CallRes("ctor", self._ctor_targets({r}), classes={r})
            if isinstance(r, FuncInfo):
                return CallRes("func", {r})
            if isinstance(r, tuple) and r[0] == "ext":
                return CallRes("ext", ext_name=r[1])
            if isinstance(r, tuple) and r[0] == "assign":
                t = self._module_assign_type(r[1], r[2])
                if t:
                    return self._call_on_value(t, f.id)
                return CallRes("ext", ext_name=r[2])
            return CallRes("ext", ext_name=f.id)  # builtin
        if isinstance(f, ast.Attribute):
            # module.func / module.Class / ext.module.func
            r = self.model.resolve_expr(m, f)
            if isinstance(f.value, ast.Name) and env.is_local(f.value.id):
                r = None
            if isinstance(r, ClassInfo):
                return CallRes("ctor", self._ctor_targets({r}), classes={r})
            if isinstance(r, FuncInfo) and r.cls is None:
                return CallRes("func", {r})
            if isinstance(r, tuple) and r[0] == "ext":
                return CallRes("ext", ext_name=r[1])
            bt = self.type_of(f.value, fn)
            if not any(a[0] in ("cls", "type") and self.model.lookup(a[1], f.attr) is not None for a in bt):
                # calling the *value* of an attribute (a stored class or bound method)
                vt = self.type_of(f, fn)
                if any(a[0] in ("bound", "type") for a in vt):
                    return self._call_on_value(vt, f.attr)
                if any(a == ("ext", "type") for a in vt):
                    return CallRes("ext", ext_name="typing.Type-call")
            targets: set[FuncInfo] = set()
            classcall = False
            ext_recv = None
            for a in bt:
                if a[0] == "cls":
                    targets |= self.model.dispatch(a[1], f.attr)
                elif a[0] == "type":
                    t = self.model.lookup(a[1], f.attr)
                    if t is not None:
                        targets.add(t)
                        classcall = True
                        for k in self.model.subclasses(a[1], strict=True):
                            if f.attr in k.methods and t.is_classmethod:
                                targets.add(k.methods[f.attr])
                elif a[0] in ("ext", "list", "dict", "tuple"):
                    ext_recv = a[1] if a[0] == "ext" else a[0]
            if targets and ext_recv is None:
                return CallRes("classcall" if classcall and all(t.is_classmethod or t.is_staticmethod for t in targets)
                               else ("unboundcall" if classcall else "method"), targets, recv=f.value)
            if targets and ext_recv is not None:
                return CallRes("method", targets, recv=f.value, ext_name=f.attr, ext_recv=ext_recv, mixed=True)
            if ext_recv is not None and any(a[0] != "ext" or a[1] != "NoneType" for a in bt):
                return CallRes("ext", ext_name=f.attr, ext_recv=ext_recv, recv=f.value)
            # unknown receiver: name-based CHA over the whole package (sound, imprecise)
            named = self.model.methods_named(f.attr)
            if named:
                return CallRes("method", named, recv=f.value, ext_name=f.attr, ext_recv="?", mixed=True, by_name=True)
            return CallRes("ext", ext_name=f.attr, ext_recv="?", recv=f.value)
        if isinstance(f, ast.Call) or isinstance(f, ast.Lambda):
            return CallRes("unresolved")
        return CallRes("unresolved")

    def _call_on_value(self, t: Type, label: str) -> "CallRes":
        targets: set[FuncInfo] = set()
        classes: set[ClassInfo] = set()
        for a in t:
            if a[0] == "bound":
                f, c = a[1], a[2]
                targets |= self.model.dispatch(c, f.name) if isinstance(c, ClassInfo) else {f}
            elif a[0] == "type":
                classes.add(a[1])
        if classes and not targets:
            # instantiation through a class-valued variable: every subclass may be meant
            allc: set[ClassInfo] = set()
            for c in classes:
                allc |= self.model.subclasses(c)
            return CallRes("ctor", self._ctor_targets(allc), classes=allc)
        if targets and not classes:
            return CallRes("indirect", targets)
        return CallRes("unresolved", label=label)

    def _ctor_targets(self, classes: set[ClassInfo]) -> set[FuncInfo]:
        out: set[FuncInfo] = set()
        for c in classes:
            f = self.model.lookup(c, "__init__")
            if f is not None:
                out.add(f)
            pi = self.model.lookup(c, "__post_init__")
            if pi is not None:
                out.add(pi)
        return out


@dataclass
class CallRes:
    kind: str  # ctor | func | method | classcall | unboundcall | super | indirect | ext | unresolved
    targets: set = field(default_factory=set)
    classes: set = field(default_factory=set)
    recv: Optional[ast.AST] = None
    ext_name: Optional[str] = None
    ext_recv: Optional[str] = None
    mixed: bool = False
    by_name: bool = False
    label: Optional[str] = None


def _is_self_attr(t: ast.AST, selfname: str, attr: str) -> bool:
    return (
        isinstance(t, ast.Attribute)
        and t.attr == attr
        and isinstance(t.value, ast.Name)
        and t.value.id == selfname
    )
