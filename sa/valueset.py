"""Finite value sets of integer expressions, from who-may-write facts -- and asserts decided by enumeration.

Some facts hold not because of the statements in front of them but because the quantities involved only ever take a handful of
values: the cell width of a `Memory` is the `.width` of one of the four fixedint classes that `AddressingType` enumerates, an
access width is one of the constants at the call sites.  `value_set` computes, for an expression inside a function, a finite
set of integers that contains every value it can take -- or None when it cannot tell:

 * a constant, or anything the constant folder folds to an int;
 * a local bound exactly once in the function (the set of its right-hand side);
 * a parameter of a *private* function (leading underscore, not a dunder): the union over every call site in the package
   (who-may-call by name: any call whose callee is spelled with that name) -- each argument evaluated in its own caller;
 * `self.a` / `x.a`: the union over every store to an attribute of that name in the package (name-based who-may-write, an
   over-approximation; augmented stores and `setattr` make it unknown);
 * `<E>.value.width` / `<E>.value` where <E> is annotated with a package `Enum` class: one value per member;
 * arithmetic over finite sets (product construction, capped).

`discharged_finite` then decides an `assert`: the free quantities of the test and of the terminating guards in front of it in the
same block (`if c: raise/return`) are enumerated; the assert is discharged when the test holds for every combination that passes
all guards.  The expressions evaluated are the checker's own folded integer arithmetic (comparisons, + - * // % << >> & | ^ on the
enumerated ints) -- no code of the repository is run.  Everything else leaves the assert standing: fail closed.
"""
from __future__ import annotations

import ast
import copy
import itertools
from typing import Optional

from .consteval import Folder, Unknown
from .model import ClassInfo, FuncInfo, Model

_CAP = 64


def _is_enum(model: Model, c: ClassInfo) -> bool:
    return any(b.split(".")[-1] in ("Enum", "IntEnum", "Flag", "IntFlag") for b in model.external_bases(c))


def _enum_member_values(model: Model, c: ClassInfo) -> Optional[list]:
    out = []
    for st in c.node.body:
        if isinstance(st, ast.Assign) and len(st.targets) == 1 and isinstance(st.targets[0], ast.Name) and not st.targets[0].id.startswith("_"):
            out.append(st.value)
        elif isinstance(st, ast.AnnAssign) and st.value is not None and isinstance(st.target, ast.Name):
            out.append(st.value)
    return out or None


def _param_annotation(g: FuncInfo, name: str) -> Optional[ast.AST]:
    a = g.node.args
    for p in a.posonlyargs + a.args + a.kwonlyargs:
        if p.arg == name:
            return p.annotation
    return None


def _attr_stores(model: Model, attr: str) -> Optional[list]:
    """[(function, rhs)] for every plain store `<obj>.attr = rhs` in the package; None when some store is not of that kind"""
    memo = model.__dict__.setdefault("_vs_store_memo", {})
    if attr in memo:
        return memo[attr]
    if model._attr_sites().get("*"):
        memo[attr] = None
        return None
    out: Optional[list] = []
    for f in model.functions.values():
        for x in ast.walk(f.node):
            if isinstance(x, (ast.FunctionDef, ast.AsyncFunctionDef, ast.Lambda)) and x is not f.node:
                continue
            tgts = []
            if isinstance(x, ast.Assign):
                tgts = [(t, x.value) for t in x.targets]
            elif isinstance(x, ast.AnnAssign) and x.value is not None:
                tgts = [(x.target, x.value)]
            elif isinstance(x, (ast.AugAssign,)) and isinstance(x.target, ast.Attribute) and x.target.attr == attr:
                memo[attr] = None
                return None
            elif isinstance(x, (ast.For, ast.With, ast.NamedExpr, ast.Delete)):
                for y in ast.walk(x.target if isinstance(x, (ast.For, ast.NamedExpr)) else x):
                    if isinstance(y, ast.Attribute) and y.attr == attr and isinstance(y.ctx, (ast.Store, ast.Del)):
                        memo[attr] = None
                        return None
            for t, v in tgts:
                if isinstance(t, ast.Attribute) and t.attr == attr:
                    out.append((f, v))
                elif isinstance(t, (ast.Tuple, ast.List)):
                    for y in ast.walk(t):
                        if isinstance(y, ast.Attribute) and y.attr == attr:
                            memo[attr] = None
                            return None
    # class-level defaults
    for c in model.classes.values():
        for st in c.node.body:
            if isinstance(st, ast.Assign) and any(isinstance(t, ast.Name) and t.id == attr for t in st.targets):
                out.append((None, (c, st.value)))
            elif isinstance(st, ast.AnnAssign) and isinstance(st.target, ast.Name) and st.target.id == attr and st.value is not None:
                out.append((None, (c, st.value)))
    memo[attr] = out
    return out


def _call_sites(model: Model, g: FuncInfo) -> Optional[list]:
    """[(caller, call)] for every call spelled with g's name; None if the name is used other than as a callee (escapes)"""
    memo = model.__dict__.setdefault("_vs_call_memo", {})
    if g.qname in memo:
        return memo[g.qname]
    out: Optional[list] = []
    callee_nodes = set()
    for f in model.functions.values():
        for x in ast.walk(f.node):
            if isinstance(x, ast.Call):
                fn = x.func
                nm = fn.id if isinstance(fn, ast.Name) else fn.attr if isinstance(fn, ast.Attribute) else None
                if nm == g.name:
                    out.append((f, x))
                    callee_nodes.add(id(fn))
    for f in model.functions.values():
        for x in ast.walk(f.node):
            if isinstance(x, ast.Attribute) and x.attr == g.name and id(x) not in callee_nodes and isinstance(x.ctx, ast.Load):
                memo[g.qname] = None
                return None
            if isinstance(x, ast.Name) and x.id == g.name and id(x) not in callee_nodes and isinstance(x.ctx, ast.Load):
                memo[g.qname] = None
                return None
    # one entry per distinct call node
    seen = set()
    uniq = []
    for f, c in out:
        if id(c) not in seen:
            seen.add(id(c))
            uniq.append((f, c))
    memo[g.qname] = uniq
    return uniq


_BIN = {
    ast.Add: lambda a, b: a + b, ast.Sub: lambda a, b: a - b, ast.Mult: lambda a, b: a * b,
    ast.FloorDiv: lambda a, b: a // b, ast.Mod: lambda a, b: a % b,
    ast.LShift: lambda a, b: a << b if 0 <= b <= 256 else None, ast.RShift: lambda a, b: a >> b if b >= 0 else None,
    ast.BitAnd: lambda a, b: a & b, ast.BitOr: lambda a, b: a | b, ast.BitXor: lambda a, b: a ^ b,
    ast.Pow: lambda a, b: a ** b if 0 <= b <= 64 else None,
}


def value_set(model: Model, g: Optional[FuncInfo], e: ast.AST, depth: int = 0, module=None, cls=None) -> Optional[frozenset]:
    if depth > 6:
        return None
    mod = g.module if g is not None else module
    kls = g.cls if g is not None else cls
    if isinstance(e, ast.Constant):
        return frozenset([e.value]) if isinstance(e.value, int) and not isinstance(e.value, bool) else None
    try:
        v = Folder(model, mod, kls).fold(e)
        if isinstance(v, int) and not isinstance(v, bool):
            return frozenset([v])
    except (Unknown, Exception):
        pass
    if isinstance(e, ast.Call) and isinstance(e.func, ast.Name) and e.func.id == "int" and len(e.args) == 1 and not e.keywords:
        return value_set(model, g, e.args[0], depth + 1, module, cls)
    if isinstance(e, ast.IfExp):
        a = value_set(model, g, e.body, depth + 1, module, cls)
        b = value_set(model, g, e.orelse, depth + 1, module, cls)
        return a | b if a is not None and b is not None and len(a | b) <= _CAP else None
    if isinstance(e, ast.BinOp) and type(e.op) in _BIN:
        a = value_set(model, g, e.left, depth + 1, module, cls)
        b = value_set(model, g, e.right, depth + 1, module, cls)
        if a is None or b is None or len(a) * len(b) > _CAP:
            return None
        out = set()
        for x in a:
            for y in b:
                try:
                    r = _BIN[type(e.op)](x, y)
                except (ZeroDivisionError, OverflowError, ValueError):
                    return None
                if r is None:
                    return None
                out.add(r)
        return frozenset(out)
    if isinstance(e, ast.UnaryOp) and isinstance(e.op, (ast.USub, ast.UAdd, ast.Invert)):
        a = value_set(model, g, e.operand, depth + 1, module, cls)
        if a is None:
            return None
        return frozenset(-x if isinstance(e.op, ast.USub) else x if isinstance(e.op, ast.UAdd) else ~x for x in a)
    # <E>.value.width / <E>.value with <E> an Enum-typed parameter / attribute
    enum_e, tail = None, None
    if isinstance(e, ast.Attribute) and e.attr == "width" and isinstance(e.value, ast.Attribute) and e.value.attr == "value":
        enum_e, tail = e.value.value, "width"
    elif isinstance(e, ast.Attribute) and e.attr == "value":
        enum_e, tail = e.value, None
    if enum_e is not None:
        c = _enum_class_of(model, g, enum_e, depth)
        if c is not None:
            vals = _enum_member_values(model, c)
            if vals is None:
                return None
            out = set()
            for mv in vals:
                ex = ast.Attribute(value=copy.deepcopy(mv), attr="width", ctx=ast.Load()) if tail == "width" else mv
                s = value_set(model, None, ex, depth + 1, c.module, c)
                if s is None:
                    return None
                out |= s
            return frozenset(out) if len(out) <= _CAP else None
    if g is None:
        return None
    if isinstance(e, ast.Name):
        params = set(g.params)
        binds = _local_binds(g, e.id)
        if e.id in params and not binds:
            return _param_set(model, g, e.id, depth)
        if e.id not in params and len(binds) == 1 and binds[0] is not None:
            return value_set(model, g, binds[0], depth + 1)
        return None
    if isinstance(e, ast.Attribute) and isinstance(e.value, ast.Name):
        stores = _attr_stores(model, e.attr)
        if not stores:
            return None
        out = set()
        for f, rhs in stores:
            if f is None:
                c, rv = rhs
                s = value_set(model, None, rv, depth + 1, c.module, c)
            else:
                s = value_set(model, f, rhs, depth + 1)
            if s is None:
                return None
            out |= s
        return frozenset(out) if len(out) <= _CAP else None
    return None


def _local_binds(g: FuncInfo, name: str) -> list:
    """right-hand sides of every binding of the local `name` in g (None for a binding that is not a plain assignment)"""
    out = []
    for x in ast.walk(g.node):
        if isinstance(x, (ast.FunctionDef, ast.AsyncFunctionDef, ast.Lambda)) and x is not g.node:
            continue
        if isinstance(x, ast.Assign):
            for t in x.targets:
                if isinstance(t, ast.Name) and t.id == name:
                    out.append(x.value)
                elif any(isinstance(y, ast.Name) and y.id == name and isinstance(y.ctx, ast.Store) for y in ast.walk(t)):
                    out.append(None)
        elif isinstance(x, ast.AnnAssign) and isinstance(x.target, ast.Name) and x.target.id == name:
            out.append(x.value)
        elif isinstance(x, ast.Name) and x.id == name and isinstance(x.ctx, (ast.Store, ast.Del)):
            pass
    stores = sum(1 for x in ast.walk(g.node) if isinstance(x, ast.Name) and x.id == name and isinstance(x.ctx, (ast.Store, ast.Del)))
    if stores != len([b for b in out if b is not None]):
        out.append(None)
    return out


def _param_set(model: Model, g: FuncInfo, name: str, depth: int) -> Optional[frozenset]:
    if not g.name.startswith("_") or (g.name.startswith("__") and g.name.endswith("__")):
        return None
    if g.cls is not None and any(g.name in c.methods for c in model.classes.values() if c is not g.cls):
        return None  # the name is shared with another class: call sites cannot be attributed
    sites = _call_sites(model, g)
    if not sites:
        return None
    a = g.node.args
    if a.vararg or a.kwarg:
        return None
    pos = [p.arg for p in a.posonlyargs + a.args]
    if g.cls is not None and not g.is_staticmethod and pos:
        pos = pos[1:]
    defaults = dict(zip(reversed([p.arg for p in a.posonlyargs + a.args]), reversed(a.defaults)))
    for p, d in zip(a.kwonlyargs, a.kw_defaults):
        if d is not None:
            defaults[p.arg] = d
    out = set()
    for f, call in sites:
        if any(isinstance(x, ast.Starred) for x in call.args) or any(k.arg is None for k in call.keywords):
            return None
        arg = None
        if name in pos and pos.index(name) < len(call.args):
            arg = call.args[pos.index(name)]
        else:
            for k in call.keywords:
                if k.arg == name:
                    arg = k.value
        if arg is None:
            if name not in defaults:
                return None
            s = value_set(model, None, defaults[name], depth + 1, g.module, g.cls)
        else:
            s = value_set(model, f, arg, depth + 1)
        if s is None:
            return None
        out |= s
    return frozenset(out) if len(out) <= _CAP else None


def _enum_class_of(model: Model, g: Optional[FuncInfo], e: ast.AST, depth: int) -> Optional[ClassInfo]:
    if g is None:
        return None
    ann = None
    if isinstance(e, ast.Name):
        if _local_binds(g, e.id):
            return None
        ann = _param_annotation(g, e.id)
        mod = g.module
    elif isinstance(e, ast.Attribute) and isinstance(e.value, ast.Name):
        stores = _attr_stores(model, e.attr)
        if not stores:
            return None
        cs = set()
        for f, rhs in stores:
            if f is None:
                return None
            c = _enum_class_of(model, f, rhs, depth + 1) if depth < 4 else None
            if c is None:
                return None
            cs.add(c)
        return cs.pop() if len(cs) == 1 else None
    if ann is None:
        return None
    c = model.resolve_class(mod, ann)
    return c if c is not None and _is_enum(model, c) else None


# ---------------------------------------------------------------------------------------------------------------------------------

def _terminates(body: list) -> bool:
    return bool(body) and isinstance(body[-1], (ast.Raise, ast.Return, ast.Continue, ast.Break))


def _atoms(e: ast.AST) -> list:
    """maximal non-arithmetic sub-expressions (names, attribute chains) of an integer test"""
    out = []

    def go(n: ast.AST) -> None:
        if isinstance(n, (ast.BoolOp,)):
            for v in n.values:
                go(v)
        elif isinstance(n, ast.UnaryOp):
            go(n.operand)
        elif isinstance(n, ast.BinOp):
            go(n.left)
            go(n.right)
        elif isinstance(n, ast.Compare):
            go(n.left)
            for op, c in zip(n.ops, n.comparators):
                if not isinstance(op, (ast.In, ast.NotIn)):  # the container of a membership test is folded, not enumerated
                    go(c)
        elif isinstance(n, ast.Constant):
            pass
        else:
            out.append(n)

    go(e)
    return out


_CMP = {ast.Eq: lambda a, b: a == b, ast.NotEq: lambda a, b: a != b, ast.Lt: lambda a, b: a < b, ast.LtE: lambda a, b: a <= b,
        ast.Gt: lambda a, b: a > b, ast.GtE: lambda a, b: a >= b}


class _Stuck(Exception):
    pass


def _ev(e: ast.AST, env: dict):
    if isinstance(e, ast.Constant):
        if isinstance(e.value, (int, bool)):
            return e.value
        raise _Stuck
    key = ast.dump(e)
    if key in env:
        return env[key]
    if isinstance(e, ast.BoolOp):
        vals = [_ev(v, env) for v in e.values]
        return all(vals) if isinstance(e.op, ast.And) else any(vals)
    if isinstance(e, ast.UnaryOp):
        v = _ev(e.operand, env)
        return (not v) if isinstance(e.op, ast.Not) else -v if isinstance(e.op, ast.USub) else ~v if isinstance(e.op, ast.Invert) else +v
    if isinstance(e, ast.BinOp) and type(e.op) in _BIN:
        try:
            r = _BIN[type(e.op)](_ev(e.left, env), _ev(e.right, env))
        except (ZeroDivisionError, OverflowError, ValueError):
            raise _Stuck
        if r is None:
            raise _Stuck
        return r
    if isinstance(e, ast.Compare):
        left = _ev(e.left, env)
        for op, c in zip(e.ops, e.comparators):
            if isinstance(op, (ast.In, ast.NotIn)):
                box = env.get("*fold*")
                try:
                    cont = box(c) if box is not None else None
                except Exception:
                    cont = None
                if not isinstance(cont, (dict, list, tuple, set, frozenset)) or not all(isinstance(x, (int, str)) for x in cont):
                    raise _Stuck
                if (left in cont) != isinstance(op, ast.In):
                    return False
                left = None
                continue
            if type(op) not in _CMP:
                raise _Stuck
            right = _ev(c, env)
            if not _CMP[type(op)](left, right):
                return False
            left = right
        return True
    raise _Stuck


def discharged_finite(model: Model, g: FuncInfo, st: ast.Assert, find_block) -> bool:
    loc = find_block(g.node, st)
    if loc is None:
        return False
    block, i = loc
    guards = []
    for prev in block[:i]:
        if isinstance(prev, ast.If) and _terminates(prev.body) and not prev.orelse:
            guards.append(prev.test)
    atoms: dict = {}
    for ex in [st.test] + guards:
        for a in _atoms(ex):
            atoms.setdefault(ast.dump(a), a)
    if not atoms:
        # nothing to enumerate: a test over constants and folded tables (`16 in _REQUIRED`) is decided as it stands
        try:
            return bool(_ev(st.test, {"*fold*": lambda c: Folder(model, g.module, g.cls).fold(c)}))
        except _Stuck:
            return False
    # the value set of an atom holds at any time (it collects every store in the package); a *guard* however speaks about the
    # moment it ran: it constrains the assert only if its atoms cannot change in between -- locals bound once and parameters
    # never rebound (value_set accepts no other names), and attributes only when nothing between the guard and the assert
    # stores or calls anything
    def quiet_after(j: int) -> bool:
        for prev in block[j + 1:i]:
            nodes = [prev.test] if isinstance(prev, ast.If) and _terminates(prev.body) and not prev.orelse else [prev]
            for nd in nodes:
                for x in ast.walk(nd):
                    if isinstance(x, ast.Call) or (isinstance(x, ast.Attribute) and isinstance(x.ctx, (ast.Store, ast.Del))):
                        return False
        return True

    sets = {}
    for k, a in atoms.items():
        s = value_set(model, g, a)
        if s is not None:
            sets[k] = s
    test_atoms = {ast.dump(a) for a in _atoms(st.test)}
    if not test_atoms <= set(sets):
        return False
    usable_guards = []
    for j, prev in enumerate(block[:i]):
        if not (isinstance(prev, ast.If) and _terminates(prev.body) and not prev.orelse):
            continue
        ats = _atoms(prev.test)
        if not {ast.dump(a) for a in ats} <= set(sets):
            continue
        if any(isinstance(x, ast.Call) for x in ast.walk(prev.test)):
            continue
        if all(isinstance(a, ast.Name) for a in ats) or quiet_after(j):
            usable_guards.append(prev.test)
    keys = sorted(sets)
    n = 1
    for k in keys:
        n *= len(sets[k])
    if n > 4096:
        return False
    try:
        for combo in itertools.product(*[sorted(sets[k]) for k in keys]):
            env = dict(zip(keys, combo))
            env["*fold*"] = lambda c: Folder(model, g.module, g.cls).fold(c)
            if any(_ev(gd, env) for gd in usable_guards):
                continue
            if not _ev(st.test, env):
                return False
    except _Stuck:
        return False
    return True
