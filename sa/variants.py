"""Variant tables for the self-test (see selftest.py).

Sources: the 63 calibration edits of design round 0
(design_notes/mutants_round0.json) plus hand-written ones below.
"""
from __future__ import annotations

import json
import os

HERE = os.path.dirname(os.path.abspath(__file__))

P = "architecture_simulator/"

# rule prefix -> property when the rule id does not say it (shared rules)
RULE_PROP_OVERRIDE = {
    "R01.done": "C13",
}
ID_RULE = {"M20_jal_repr": "R14.jal"}
# calibration edits whose breakage belongs to another property than the rule id suggested
ID_PROP = {"N11_no_dmem_reset": ("C13", "R13.load")}
RULE_RENAME = {
    "R01.done": "R13.done",
    "R01.sign": "R01.sem",
    "R02.cnt": "R02.sib",
}


def V(id, prop, rule, expect, file, old, new, **kw):
    d = {"id": id, "prop": prop, "rule": rule, "expect": expect, "file": file if file.startswith(P) else P + file,
         "old": old, "new": new}
    d.update(kw)
    return d


EXTRA: list[dict] = []


def _round0() -> list[dict]:
    path = os.path.join(os.path.dirname(HERE), "design_notes", "mutants_round0.json")
    with open(path, encoding="utf-8") as fh:
        raw = json.load(fh)
    out = []
    for x in raw:
        exp = x["expected"]
        rule = x.get("rule")
        if rule is None or exp.startswith("not-caught") or exp.startswith("identity"):
            continue
        expect = "fire" if exp == "fire" else "silent"
        prop = RULE_PROP_OVERRIDE.get(rule) or ("C" + rule[1:3])
        rule = RULE_RENAME.get(rule, rule)
        rule = ID_RULE.get(x["id"], rule)
        if x["id"] in ID_PROP:
            prop, rule = ID_PROP[x["id"]]
        out.append({"id": x["id"], "prop": prop, "rule": None if expect == "silent" or rule.endswith("*") else rule,
                    "expect": expect, "file": x["file"], "old": x["old"], "new": x["new"],
                    "pinned_suite": x.get("pinned_suite")})
    return out


# a rule shared by several properties is exercised under each of them
ALIASES = {
    "R02.depth": [("C07", "R07.depth")],
    "R02.src": [("C07", "R07.src")],
    "R02.stallpair": [("C07", "R07.stallpair")],
    "R02.order": [("C07", "R07.order"), ("C08", "R08.order")],
    "R02.drain": [("C07", "R07.drain")],
    "R02.resolve": [("C07", "R07.resolve")],
    "R11.load": [("C13", "R13.load")],
    "R11.reset": [("C13", "R13.reset")],
    "R13.done": [("C01", "R01.done")],
}


def all_variants() -> list[dict]:
    from . import variants_extra
    base = _round0() + variants_extra.EXTRA
    out = list(base)
    for v in base:
        for prop, rule in ALIASES.get(v.get("rule") or "", []):
            d = dict(v)
            d.update({"id": f"{v['id']}@{prop}", "prop": prop, "rule": rule})
            out.append(d)
    ids = [v["id"] for v in out]
    assert len(ids) == len(set(ids)), "duplicate variant ids"
    return out
