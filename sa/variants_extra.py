"""Hand-written self-test variants (beyond the round-0 calibration set)."""
from .variants import V

EXTRA = [
    V("X16_getter_sorts_in_place", "C16", "R16.pure", "fire",
      "uarch/memory/replacement_strategies.py",
      "        return [self.lru.index(i) for i in range(len(self.lru))]",
      "        self.lru.sort()\n        return [self.lru.index(i) for i in range(len(self.lru))]"),
    V("X16_stats_returns_shared_dict", "C16", "R16.pure", "fire",
      "uarch/memory/base_cache_memory_system.py",
      "        return {\n            \"hits\": str(self.hits),\n            \"accesses\": str(self.accesses),\n            \"last_hit\": self.last_was_hit,\n        }\n\n    def reset",
      "        self._stats = getattr(self, \"_stats\", {})\n        return self._stats\n\n    def reset"),
    V("X16_display_reads_through_cache", "C16", "R16.pure", "fire",
      "simulation/riscv_simulation.py",
      "        memory_repr = self.state.memory.wordwise_repr()",
      "        memory_repr = self.state.memory.wordwise_repr()\n        self.state.memory.read_word(2**14, update_statistics=False)"),
    V("X16_silent_local_sort", "C16", None, "silent",
      "simulation/riscv_simulation.py",
      "        for key, values in sorted(memory_repr.items()):",
      "        items = list(memory_repr.items())\n        items.sort()\n        for key, values in items:"),
    V("X16_flag_counts_when_uncounted", "C16", "R16.flag", "fire",
      "uarch/memory/base_cache_memory_system.py",
      "        block_values, hit = self._read_block(decoded_address)\n        if update_statistics:\n            self.accesses += 1\n            self.hits += int(hit)\n            self.last_was_hit = hit\n            if not hit:\n                self.performance_metrics.cycles += self.miss_penality\n        return word_from_block",
      "        block_values, hit = self._read_block(decoded_address)\n        self.last_was_hit = hit\n        if update_statistics:\n            self.accesses += 1\n            self.hits += int(hit)\n            if not hit:\n                self.performance_metrics.cycles += self.miss_penality\n        return word_from_block"),
]
