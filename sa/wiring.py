"""Configuration wiring: each cache is built from its *own* CacheOptions object, field by field."""
from __future__ import annotations

import ast

from .model import AnalysisError
from .paths import calls_in
from .report import Ctx

# constructor keyword -> CacheOptions field
FIELDS = {
    "num_index_bits": "num_index_bits",
    "num_block_bits": "num_block_bits",
    "associativity": "associativity",
    "replacement_strategy": "replacement_strategy",
    "miss_penality": "miss_penalty",
}


def wiring_rule(ctx: Ctx, rid: str, which=("data", "instruction"), fields=None) -> None:
    m = ctx.model
    r = ctx.rule(rid, "each cache constructor keyword is fed from the same-named field of its own options object")
    st = m.method("RiscvArchitecturalState", "__init__", own=True)
    want_fields = {k: v for k, v in FIELDS.items() if fields is None or k in fields}
    sites = {}
    for c in calls_in(st.node):
        fn = ast.unparse(c.func)
        if fn == "InstructionMemoryCacheSystem":
            sites["instruction"] = (c, "instruction_cache_options")
        elif fn == "cache_class" or fn in ("WriteBackMemorySystem", "WriteThroughMemorySystem"):
            sites["data"] = (c, "data_cache_options")
    for w in which:
        if w not in sites:
            raise AnalysisError(f"{rid}: construction site of the {w} cache vanished")
        c, opt = sites[w]
        kw = {k.arg: k.value for k in c.keywords}
        for k, fld in want_fields.items():
            v = kw.get(k)
            got = ast.unparse(v) if v is not None else None
            r.check(got == f"{opt}.{fld}", f"{w}-cache|{k}", st.loc(v) if v is not None else st.loc(c),
                    f"the {w} cache gets {k}={got}; it must come from {opt}.{fld}")
        if fields is None or "performance_metrics" in (fields or ()):
            v = kw.get("performance_metrics")
            r.check(v is not None and ast.unparse(v) == "self.performance_metrics", f"{w}-cache|performance_metrics", st.loc(c),
                    f"the {w} cache does not charge its penalties to the state's performance metrics")
    # enable flags and policy selection
    txt = " ".join(ast.unparse(st.node).split())
    if "data" in which:
        r.check("if data_cache_options.enable:" in txt, "data-cache|enable", st.loc(), "the data cache is not enabled by data_cache_options.enable")
        r.check("if data_cache_options.cache_type == 'wt': cache_class: type[BaseCacheMemorySystem] = WriteThroughMemorySystem else: cache_class = WriteBackMemorySystem" in txt,
                "data-cache|policy", st.loc(), "write policy selection is no longer {'wt': write-through, else: write-back}")
    if "instruction" in which:
        r.check("if instruction_cache_options.enable:" in txt, "instruction-cache|enable", st.loc(), "the instruction cache is not enabled by instruction_cache_options.enable")
    # the policy string is interpreted the same way by every cache system, in __init__ and in reset
    for cn in ("BaseCacheMemorySystem", "InstructionMemoryCacheSystem"):
        if ("data" in which and cn == "BaseCacheMemorySystem") or ("instruction" in which and cn == "InstructionMemoryCacheSystem"):
            f = m.method(cn, "__init__", own=True)
            t = " ".join(ast.unparse(f.node).split())
            r.check("= LRU if replacement_strategy == 'lru' else PLRU" in t, f"{cn}|policy-class", f.loc(), f"{cn} no longer maps 'lru' -> LRU, else PLRU")
            r.check("replacement_strategy=self.replacement_strategy_class" in t, f"{cn}|policy-used", f.loc(), f"{cn} does not build its cache with the selected policy class")
            r.check("self.miss_penality = miss_penality" in t, f"{cn}|penalty-stored", f.loc(), f"{cn} does not store the configured miss penalty")
    # RiscvSimulation forwards both option objects
    sim = m.method("RiscvSimulation", "__init__", own=True)
    t = " ".join(ast.unparse(sim.node).split())
    if "data" in which:
        r.check("data_cache_options=data_cache" in t, "simulation|data", sim.loc(), "RiscvSimulation does not forward data_cache")
    if "instruction" in which:
        r.check("instruction_cache_options=instruction_cache" in t, "simulation|instruction", sim.loc(), "RiscvSimulation does not forward instruction_cache")
    gw = m.func("gui.webgui.get_riscv_simulation")
    t = " ".join(ast.unparse(gw.node).split())
    if "data" in which:
        r.check("data_cache=data_cache_options" in t, "webgui|data", gw.loc(), "the web entry point does not forward data_cache_options")
    if "instruction" in which:
        r.check("instruction_cache=instruction_cache_options" in t, "webgui|instruction", gw.loc(), "the web entry point does not forward instruction_cache_options")
