"""Configuration wiring: each cache is built from its *own* CacheOptions object, field by field."""
from __future__ import annotations

import ast

from .model import AnalysisError
from .paths import calls_in
from .report import Ctx

# constructor keyword -> CacheOptions field
FIELDS = {
    "num_index_bits": "num_index_bits",
    "num_block_bits": "num_block_bits",
    "associativity": "associativity",
    "replacement_strategy": "replacement_strategy",
    "miss_penality": "miss_penalty",
}


def _single_assigned(fn_node: ast.AST) -> dict:
    from .pathsym import subst
    counts: dict = {}
    for n in ast.walk(fn_node):
        if isinstance(n, ast.Name) and isinstance(n.ctx, ast.Store):
            counts[n.id] = counts.get(n.id, 0) + 1
    single = {}
    for n in ast.walk(fn_node):
        if isinstance(n, ast.Assign) and len(n.targets) == 1 and isinstance(n.targets[0], ast.Name) and counts.get(n.targets[0].id) == 1 \
                and isinstance(n.value, (ast.Name, ast.Attribute)):
            single[n.targets[0].id] = n.value
    for _ in range(3):
        single = {k: subst(v, {k2: v2 for k2, v2 in single.items() if k2 != k}) for k, v in single.items()}
    return single


def _args_by_name(m, call: ast.Call, callee) -> dict:
    ps = callee.params[1:]
    given = {ps[i]: a for i, a in enumerate(call.args) if i < len(ps)}
    given.update({k.arg: k.value for k in call.keywords if k.arg})
    return given


def wiring_rule(ctx: Ctx, rid: str, which=("data", "instruction"), fields=None) -> None:
    """Constructor arguments are matched to parameters through the callee's signature (keyword or positional), single-assigned
    alias locals are substituted; which constructor runs under which option is read off the normal form of __init__
    (conditional values resolved under the option tests), so if/else, guard clauses, helpers and conditional expressions are one form."""
    from .parsershape import normal_flow
    from .pathsym import subst
    m = ctx.model
    r = ctx.rule(rid, "each cache constructor keyword is fed from the same-named field of its own options object")
    st = m.method("RiscvArchitecturalState", "__init__", own=True)
    want_fields = {k: v for k, v in FIELDS.items() if fields is None or k in fields}
    single = _single_assigned(st.node)
    base_init = m.method("BaseCacheMemorySystem", "__init__")
    ic_init = m.method("InstructionMemoryCacheSystem", "__init__")
    sites: dict = {}
    for c in calls_in(st.node):
        fn = c.func.value if isinstance(c.func, ast.Subscript) else c.func
        k = m.resolve_class(st.module, fn) if isinstance(fn, (ast.Name, ast.Attribute)) else None
        name = k.name if k is not None else ast.unparse(fn)
        if name == "InstructionMemoryCacheSystem":
            sites.setdefault("instruction", []).append((c, "instruction_cache_options", ic_init))
        elif name in ("cache_class", "WriteBackMemorySystem", "WriteThroughMemorySystem") or isinstance(fn, ast.IfExp):
            sites.setdefault("data", []).append((c, "data_cache_options", base_init))
    for w in which:
        if w not in sites:
            raise AnalysisError(f"{rid}: construction site of the {w} cache vanished")
        for c, opt, callee in sites[w]:
            kw = _args_by_name(m, c, callee)
            for k, fld in want_fields.items():
                v = kw.get(k)
                got = ast.unparse(subst(v, single)) if v is not None else None
                r.check(got == f"{opt}.{fld}", f"{w}-cache|{k}", st.loc(v) if v is not None else st.loc(c),
                        f"the {w} cache gets {k}={got}; it must come from {opt}.{fld}")
            if fields is None or "performance_metrics" in (fields or ()):
                v = kw.get("performance_metrics")
                r.check(v is not None and ast.unparse(subst(v, single)) == f"{st.params[0]}.performance_metrics", f"{w}-cache|performance_metrics", st.loc(c),
                        f"the {w} cache does not charge its penalties to the state's performance metrics")
    # enable flags and policy selection: what ends up in self.memory / self.instruction_memory under which option
    fl = normal_flow(m, st)
    pr = fl.cprinter

    def built(target: str, assume_src: list) -> set:
        """classes of the objects stored in `target` when the given tests hold and no ready-made object was passed in"""
        assume = [ast.parse(t, mode="eval").body for t in assume_src]
        ab = pr._mk("and", [pr._bool(t) for t in assume])
        out = set()
        for e in fl.effects:
            if e.kind != "store" or not isinstance(e.expr, ast.Assign) or pr.show(e.expr.targets[0]).split("@")[0] != target:
                continue
            cb = pr._mk("and", [ab] + [pr._bool(t, pol) for t, pol in e.cond])
            t = pr._tables([cb])
            if t is not None and t[1][0] == 0:
                continue
            v = pr.resolve_under(e.expr.value, cb)
            for arm in ([v.body, v.orelse] if isinstance(v, ast.IfExp) else [v]):
                fn = arm.func if isinstance(arm, ast.Call) else None
                fn = fn.value if isinstance(fn, ast.Subscript) else fn
                k = m.resolve_class(st.module, fn) if isinstance(fn, (ast.Name, ast.Attribute)) else None
                out.add(k.name if k is not None else pr.show(arm))
        return out

    params = st.params
    none_mem = [f"{p} is None" for p in ("memory",) if p in params]
    none_im = [f"{p} is None" for p in ("instruction_memory",) if p in params]
    if "data" in which:
        on_wt = built("P0.memory", none_mem + ["data_cache_options.enable", "data_cache_options.cache_type == 'wt'"])
        on_wb = built("P0.memory", none_mem + ["data_cache_options.enable", "data_cache_options.cache_type != 'wt'"])
        off = built("P0.memory", none_mem + ["not data_cache_options.enable"])
        r.check(off == {"Memory"} and on_wt | on_wb <= {"WriteThroughMemorySystem", "WriteBackMemorySystem"} and bool(on_wt), "data-cache|enable", st.loc(),
                f"the data cache is not enabled by data_cache_options.enable (enabled: {sorted(on_wt | on_wb)}, disabled: {sorted(off)})")
        r.check(on_wt == {"WriteThroughMemorySystem"} and on_wb == {"WriteBackMemorySystem"}, "data-cache|policy", st.loc(),
                f"write policy selection is no longer {{'wt': write-through, else: write-back}} ('wt': {sorted(on_wt)}, else: {sorted(on_wb)})")
    if "instruction" in which:
        on = built("P0.instruction_memory", none_im + ["instruction_cache_options.enable"])
        off = built("P0.instruction_memory", none_im + ["not instruction_cache_options.enable"])
        r.check(on == {"InstructionMemoryCacheSystem"} and off == {"InstructionMemory"}, "instruction-cache|enable", st.loc(),
                f"the instruction cache is not enabled by instruction_cache_options.enable (enabled: {sorted(on)}, disabled: {sorted(off)})")
    # the policy string is interpreted the same way by every cache system, in __init__ and in reset
    for cn in ("BaseCacheMemorySystem", "InstructionMemoryCacheSystem"):
        if ("data" in which and cn == "BaseCacheMemorySystem") or ("instruction" in which and cn == "InstructionMemoryCacheSystem"):
            f = m.method(cn, "__init__", own=True)
            ffl = normal_flow(m, f)
            fpr = ffl.cprinter
            stores = {fpr.show(e.expr.targets[0] if isinstance(e.expr, ast.Assign) else e.expr.target).split("@")[0]: e for e in ffl.effects
                      if e.kind == "store" and isinstance(e.expr, (ast.Assign, ast.AnnAssign))}
            pc = stores.get("P0.replacement_strategy_class")
            rs = ast.Name(id="replacement_strategy", ctx=ast.Load())
            lru = ast.Compare(left=rs, ops=[ast.Eq()], comparators=[ast.Constant(value="lru")])
            ok = False
            if pc is not None and "replacement_strategy" in f.params:
                # every store to the attribute that can happen under the assumption must store the expected class (one store of a
                # conditional value, an if / else with one store per arm, an inlined selection helper: all the same)
                from .flowspec import _cond_ast

                def value_under(assume) -> set:
                    vals: set = set()
                    for e in ffl.effects:
                        if not (e.kind == "store" and isinstance(e.expr, (ast.Assign, ast.AnnAssign))):
                            continue
                        tg = e.expr.targets[0] if isinstance(e.expr, ast.Assign) else e.expr.target
                        if fpr.show(tg).split("@")[0] != "P0.replacement_strategy_class" or e.expr.value is None:
                            continue
                        if e.cond:
                            t_ = fpr._tables([fpr._mk("and", [fpr._bool(_cond_ast(e.cond)), assume])])
                            if t_ is not None and t_[1][0] == 0:
                                continue
                        vals.add(fpr.show(fpr.resolve_under(e.expr.value, assume)))
                    return vals
                ok = value_under(fpr._bool(lru)) == {"LRU"} and value_under(fpr._bool(lru, False)) == {"PLRU"}
            r.check(ok, f"{cn}|policy-class", f.loc(), f"{cn} no longer maps 'lru' -> LRU, else PLRU")
            cache_calls = [c for c in calls_in(f.node) if isinstance(c.func, (ast.Name, ast.Subscript)) and ast.unparse(c.func.value if isinstance(c.func, ast.Subscript) else c.func) == "Cache"]
            cinit = m.method("Cache", "__init__")
            okc = bool(cache_calls) and all(
                ast.unparse(_args_by_name(m, c, cinit).get("replacement_strategy", ast.Constant(value=None))) == f"{f.params[0]}.replacement_strategy_class"
                for c in cache_calls)
            r.check(okc, f"{cn}|policy-used", f.loc(), f"{cn} does not build its cache with the selected policy class")
            mp = stores.get("P0.miss_penality")
            r.check(mp is not None and "miss_penality" in f.params and fpr.show(mp.expr.value) == f"P{f.params.index('miss_penality')}" and fpr.show_cond(mp.cond) == "TRUE",
                    f"{cn}|penalty-stored", f.loc(), f"{cn} does not store the configured miss penalty")
    # RiscvSimulation forwards both option objects
    sim = m.method("RiscvSimulation", "__init__", own=True)
    sim_calls = [c for c in calls_in(sim.node) if m.resolve_class(sim.module, c.func) is m.cls("RiscvArchitecturalState")] if True else []
    ssingle = _single_assigned(sim.node)

    def fwd(calls, callee, pname: str, want: str, f) -> bool:
        return bool(calls) and all(ast.unparse(subst(_args_by_name(m, c, callee).get(pname, ast.Constant(value=None)), ssingle)) == want and want in f.params for c in calls)

    if "data" in which:
        r.check(fwd(sim_calls, st, "data_cache_options", "data_cache", sim), "simulation|data", sim.loc(), "RiscvSimulation does not forward data_cache")
    if "instruction" in which:
        r.check(fwd(sim_calls, st, "instruction_cache_options", "instruction_cache", sim), "simulation|instruction", sim.loc(), "RiscvSimulation does not forward instruction_cache")
    gw = m.func("gui.webgui.get_riscv_simulation")
    gw_calls = [c for c in calls_in(gw.node) if m.resolve_class(gw.module, c.func) is m.cls("RiscvSimulation")]
    ssingle = _single_assigned(gw.node)
    if "data" in which:
        r.check(fwd(gw_calls, sim, "data_cache", "data_cache_options", gw), "webgui|data", gw.loc(), "the web entry point does not forward data_cache_options")
    if "instruction" in which:
        r.check(fwd(gw_calls, sim, "instruction_cache", "instruction_cache_options", gw), "webgui|instruction", gw.loc(), "the web entry point does not forward instruction_cache_options")


def metrics_identity_rule(ctx: Ctx, rid: str) -> None:
    """The caches charge their miss penalties to the performance-metrics object they were handed at construction, the pipeline and
    the simulation read `state.performance_metrics`: they are one object only as long as nobody re-binds the attribute after
    construction (a "fresh counters on reload" that replaces the object detaches the caches' penalties from the reported cycles).
    Who-may-write rule: `<x>.performance_metrics` is stored in constructors only."""
    from .common import attr_stores, seg, short
    m = ctx.model
    r = ctx.rule(rid, "the performance-metrics object is bound in constructors only (caches and state share one object)")
    n = 0
    for f, st, t in attr_stores(m, "performance_metrics"):
        n += 1
        ok = f.name in ("__init__", "__post_init__")
        r.check(ok, f"{short(f.qname)}|performance_metrics-writer", f.loc(st),
                f"`{seg(f, st)}` in {short(f.qname)} re-binds performance_metrics after construction: the cache systems keep charging the "
                "object they were built with, so hit / miss penalties and the reported cycle count come apart")
    if n < 3:
        from .model import AnalysisError
        raise AnalysisError(f"{rid}: only {n} stores to performance_metrics found (5 confirmed by hand)")
    r.floor(3)
