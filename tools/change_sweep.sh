#!/bin/bash
# usage: tools/change_sweep.sh [root] [out]  -- run all checks against every change*.diff below root, in parallel; one line per change
root=${1:-/tmp/wt2}
out=${2:-/tmp/r2/csweep}
mkdir -p $out
ls $root/*/_seeded/change*.diff 2>/dev/null | xargs -P 10 -I{} bash -c 'd={}; p=$(basename $(dirname $(dirname $d))); k=$(basename $d .diff); CUT=200 '$(dirname $0)'/try_diff.sh $d > '$out'/$p.$k.txt 2>&1'
for f in $out/*.txt; do
  n=$(basename $f .txt); p=${n%%.*}
  own=$(grep -c "^VIOLATION property=$p " $f)
  any=$(grep -c "^VIOLATION" $f)
  err=$(grep -c "^ANALYSIS-ERROR" $f)
  rules=$(grep -o "\[R[0-9][0-9]\.[a-z0-9]*\]" $f | sort -u | tr '\n' ' ')
  echo "$n own=$own any=$any err=$err $rules"
done
