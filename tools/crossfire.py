#!/venv/bin/python
"""Run every check against every self-test variant and list cross-property fires
(variant written for property X makes the check of property Y != X report)."""
import json, os, sys
from concurrent.futures import ProcessPoolExecutor
sys.path.insert(0, os.path.dirname(os.path.dirname(os.path.abspath(__file__))))
from sa.selftest import load_variants, _apply

PROPS = [f"C{i:02d}" for i in range(1, 21)]

def run(v):
    from sa.main import run_property
    ov = _apply(v)
    if ov is None:
        return v["id"], {}
    res = {}
    for p in PROPS:
        out = {}
        rc = run_property(p, "quick", overlay=ov, quiet=True, out=out)
        if rc != 0:
            res[p] = {"rc": rc, "rules": sorted({f.rule for f in out.get("findings", [])}), "err": (out.get("error") or "")[:120]}
    return v["id"], res

if __name__ == "__main__":
    vs = load_variants()
    # one representative per (file, old, new): aliases duplicate edits
    seen = set(); uniq = []
    for v in vs:
        k = json.dumps([v.get("edits") or [v["file"], v["old"], v["new"]]])
        if k not in seen:
            seen.add(k); uniq.append(v)
    with ProcessPoolExecutor(16) as ex:
        results = list(ex.map(run, uniq, chunksize=4))
    byid = {v["id"]: v for v in uniq}
    out = []
    for vid, res in results:
        v = byid[vid]
        cross = {p: r for p, r in res.items() if p != v["prop"]}
        if v["expect"] == "silent":
            cross = res
        if cross:
            out.append({"id": vid, "prop": v["prop"], "expect": v["expect"], "cross": cross})
    json.dump(out, open("/tmp/crossfire.json", "w"), indent=1)
    print(len(uniq), "variants;", len(out), "with cross-property fires")
