#!/venv/bin/python
"""Confirm a sub-agent's seeded change and run the static checks against it.

usage: tools/eval_seeded.py <prop> <dir-with change<k>.diff demo<k>.py note<k>.txt> [k ...]
       tools/eval_seeded.py --refactor <prop> <dir-with refactor<k>.diff> [k ...]

For each k, in a fresh scratch worktree of /repo (removed afterwards):
  1. demo passes on the clean tree
  2. the diff applies; the pinned suite still passes (242)
  3. demo fails with the change
  4. every check (./check <Cxx>, SA_REPO=<scratch>) is run; which properties/rules fire is recorded
Prints one JSON line per k.

With --refactor the diff is a behaviour-preserving edit: it must apply, keep the suite green, and
every check must stay silent (any exit 1/2 is a false alarm of the machinery).
"""
import json, os, shutil, subprocess, sys, tempfile

PY = "/venv/bin/python"
VERIF = os.path.dirname(os.path.dirname(os.path.abspath(__file__)))


def sh(cmd, cwd=None, env=None, timeout=600):
    p = subprocess.run(cmd, shell=True, cwd=cwd, env=env, capture_output=True, text=True, timeout=timeout)
    return p.returncode, p.stdout + p.stderr


def run_checks(wt):
    fired = {}
    for i in range(1, 21):
        p = f"C{i:02d}"
        rc, out = sh(f"{PY} -B {VERIF}/sa/main.py {p}", cwd=VERIF, env=dict(os.environ, SA_REPO=wt, SA_NO_EVIDENCE="1"))
        if rc != 0:
            rules = sorted({l.split("[")[1].split("]")[0] for l in out.splitlines() if "] " in l and l.count("[R")})
            fired[p] = {"rc": rc, "rules": rules, "first": next((l[:300] for l in out.splitlines() if "[R" in l or "ANALYSIS-ERROR" in l), "")}
    return fired


def refactor_main(argv):
    prop, d = argv[0], argv[1]
    ks = argv[2:] or ["1", "2"]
    for k in ks:
        diff = os.path.join(d, f"refactor{k}.diff")
        if not os.path.exists(diff) or os.path.getsize(diff) == 0:
            print(json.dumps({"prop": prop, "k": k, "mode": "refactor", "status": "missing"}))
            continue
        wt = tempfile.mkdtemp(prefix="seedchk_", dir="/tmp")
        os.rmdir(wt)
        res = {"prop": prop, "k": k, "mode": "refactor"}
        try:
            rc, out = sh(f"git -C /repo worktree add -q --detach {wt} HEAD")
            assert rc == 0, out
            env = dict(os.environ, PYTHONPATH=wt)
            rc, out = sh(f"git apply --whitespace=nowarn {diff}", cwd=wt)
            res["apply_rc"] = rc
            if rc != 0:
                res["apply_err"] = out[-300:]
            else:
                rc, out = sh(f"timeout 900 {PY} -m pytest -q -p no:cacheprovider --timeout=120 -x -n 8 2>&1 | tail -3", cwd=wt, env=env, timeout=1000)
                res["tests"] = out.strip().splitlines()[-1][:80] if out.strip() else ""
                res["fired"] = run_checks(wt)
                res["changed_files"] = sh("git diff --stat | head -5", cwd=wt)[1].strip().splitlines()
        finally:
            sh(f"git -C /repo worktree remove --force {wt}")
        res["valid"] = res.get("apply_rc") == 0 and "242 passed" in res.get("tests", "")
        res["silent"] = not res.get("fired")
        print(json.dumps(res))


def main():
    if sys.argv[1] == "--refactor":
        return refactor_main(sys.argv[2:])
    prop, d = sys.argv[1], sys.argv[2]
    ks = sys.argv[3:] or ["1", "2", "3"]
    for k in ks:
        diff = os.path.join(d, f"change{k}.diff")
        demo = os.path.join(d, f"demo{k}.py")
        if not (os.path.exists(diff) and os.path.exists(demo)):
            print(json.dumps({"prop": prop, "k": k, "status": "missing"}))
            continue
        wt = tempfile.mkdtemp(prefix="seedchk_", dir="/tmp")
        os.rmdir(wt)
        res = {"prop": prop, "k": k}
        try:
            rc, out = sh(f"git -C /repo worktree add -q --detach {wt} HEAD")
            assert rc == 0, out
            os.makedirs(os.path.join(wt, "_seeded"))
            shutil.copy(demo, os.path.join(wt, "_seeded", f"demo{k}.py"))
            env = dict(os.environ, PYTHONPATH=wt)
            rc, out = sh(f"timeout 300 {PY} _seeded/demo{k}.py", cwd=wt, env=env)
            res["demo_clean_rc"] = rc
            rc, out = sh(f"git apply --whitespace=nowarn {diff}", cwd=wt)
            res["apply_rc"] = rc
            if rc != 0:
                res["apply_err"] = out[-300:]
            else:
                rc, out = sh(f"timeout 900 {PY} -m pytest -q -p no:cacheprovider --timeout=120 -x -n 8 2>&1 | tail -3", cwd=wt, env=env, timeout=1000)
                res["tests"] = out.strip().splitlines()[-1][:80] if out.strip() else ""
                rc, out = sh(f"timeout 300 {PY} _seeded/demo{k}.py", cwd=wt, env=env)
                res["demo_changed_rc"] = rc
                res["fired"] = run_checks(wt)
                res["changed_files"] = sh("git diff --stat | head -5", cwd=wt)[1].strip().splitlines()
        finally:
            sh(f"git -C /repo worktree remove --force {wt}")
        ok = res.get("demo_clean_rc") == 0 and res.get("apply_rc") == 0 and "242 passed" in res.get("tests", "") and res.get("demo_changed_rc", 0) != 0
        res["confirmed"] = ok
        res["caught_by_own_property"] = prop in res.get("fired", {}) and res["fired"][prop]["rc"] == 1
        res["caught_by_any"] = any(v["rc"] == 1 for v in res.get("fired", {}).values())
        print(json.dumps(res))


if __name__ == "__main__":
    main()
