#!/venv/bin/python
"""Re-run all twenty checks against every stored seeded change and refactoring (scratch worktrees, removed afterwards),
update each meta.json's static_checks and rewrite seeded/SUMMARY.json.

usage: tools/reeval_seeded.py [id ...]"""
import glob, json, os, subprocess, sys, tempfile
from concurrent.futures import ThreadPoolExecutor
VERIF = os.path.dirname(os.path.dirname(os.path.abspath(__file__)))
PY = "/venv/bin/python"


def sh(cmd, cwd=None, env=None):
    p = subprocess.run(cmd, shell=True, cwd=cwd, env=env, capture_output=True, text=True)
    return p.returncode, p.stdout + p.stderr


def checks(d):
    wt = tempfile.mkdtemp(prefix="reeval_", dir="/tmp"); os.rmdir(wt)
    fired, errs = {}, {}
    try:
        rc, out = sh(f"git -C /repo worktree add -q --detach {wt} HEAD"); assert rc == 0, out
        rc, out = sh(f"git apply --whitespace=nowarn {os.path.join(d, 'patch.diff')}", cwd=wt); assert rc == 0, out
        for i in range(1, 21):
            p = f"C{i:02d}"
            rc, out = sh(f"{PY} -B {VERIF}/sa/main.py {p}", cwd=VERIF, env=dict(os.environ, SA_REPO=wt, SA_NO_EVIDENCE="1"))
            rules = sorted({l.split("[")[1].split("]")[0] for l in out.splitlines() if "] " in l and "[R" in l and not l.startswith(" ")})
            if rc == 1:
                fired[p] = rules
            elif rc != 0:
                errs[p] = next((l[:240] for l in out.splitlines() if "ANALYSIS-ERROR" in l), "")
    finally:
        sh(f"git -C /repo worktree remove --force {wt}")
    return fired, errs


def one(d):
    mp = os.path.join(d, "meta.json")
    m = json.load(open(mp))
    fired, errs = checks(d)
    if "breaks_property" in m:
        own = m["breaks_property"]
        m["static_checks"] = {"how_run": "./check <Cxx> with SA_REPO=<patched scratch worktree> for all twenty properties (tools/reeval_seeded.py)",
                              "violations_reported_by": fired, "analysis_errors": errs,
                              "caught_by_own_property": own in fired, "caught_by_any": bool(fired)}
    else:
        m["static_checks"] = {"how_run": "./check <Cxx> with SA_REPO=<patched scratch worktree> for all twenty properties (tools/reeval_seeded.py)",
                              "fired": fired, "analysis_errors": errs, "silent": not fired and not errs}
    json.dump(m, open(mp, "w"), indent=1)
    return m


def main():
    want = set(sys.argv[1:])
    dirs = sorted(glob.glob(os.path.join(VERIF, "seeded", "C*"))) + sorted(glob.glob(os.path.join(VERIF, "seeded", "refactors", "C*")))
    dirs = [d for d in dirs if os.path.exists(os.path.join(d, "meta.json")) and (not want or os.path.basename(d) in want)]
    with ThreadPoolExecutor(10) as ex:
        metas = list(ex.map(one, dirs))
    allm = [json.load(open(os.path.join(d, "meta.json"))) for d in sorted(glob.glob(os.path.join(VERIF, "seeded", "C*"))) if os.path.exists(os.path.join(d, "meta.json"))]
    json.dump([{"id": m["id"], "fired": m["static_checks"]["violations_reported_by"], "errors": m["static_checks"]["analysis_errors"]} for m in allm],
              open(os.path.join(VERIF, "seeded", "SUMMARY.json"), "w"), indent=1)
    refs = [json.load(open(os.path.join(d, "meta.json"))) for d in sorted(glob.glob(os.path.join(VERIF, "seeded", "refactors", "C*")))]
    json.dump([{"id": m["id"], "silent": m["static_checks"]["silent"], "fired": m["static_checks"]["fired"], "errors": m["static_checks"].get("analysis_errors", {})} for m in refs],
              open(os.path.join(VERIF, "seeded", "refactors", "SUMMARY.json"), "w"), indent=1)
    own = sum(m["static_checks"]["caught_by_own_property"] for m in allm)
    anyc = sum(m["static_checks"]["caught_by_any"] for m in allm)
    print(f"{len(allm)} changes: own={own} any={anyc}; {len(refs)} refactorings: silent={sum(bool(m['static_checks']['silent']) for m in refs)}")
    for m in allm:
        if not m["static_checks"]["caught_by_own_property"]:
            print("  not by own property:", m["id"], m["static_checks"]["violations_reported_by"], m["static_checks"]["analysis_errors"])
    for m in refs:
        if not m["static_checks"]["silent"]:
            print("  refactoring not silent:", m["id"], m["static_checks"]["fired"], m["static_checks"].get("analysis_errors"))


if __name__ == "__main__":
    main()
