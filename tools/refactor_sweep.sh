#!/bin/bash
# usage: tools/refactor_sweep.sh <dir-glob-root>   -- run all checks against every refactor*.diff below, in parallel
root=${1:-/tmp/wt2}
out=${2:-/tmp/r2/sweep}
mkdir -p $out
ls $root/*/_seeded/refactor*.diff 2>/dev/null | xargs -P 10 -I{} bash -c 'd={}; p=$(basename $(dirname $(dirname $d))); k=$(basename $d .diff); CUT=300 '$(dirname $0)'/try_diff.sh $d > '$out'/$p.$k.txt 2>&1'
for f in $out/*.txt; do
  if [ -s $f ]; then echo "== $(basename $f .txt)"; grep -v "^    \|replay=" $f | head -${LINES_PER:-6}; fi
done
