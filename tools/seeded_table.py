#!/venv/bin/python
"""Regenerate the table of DESIGN.md section 11 from seeded/*/meta.json.

usage: tools/seeded_table.py          (rewrites the block between the SEEDED_TABLE markers in DESIGN.md)
"""
import glob, json, os, re

VERIF = os.path.dirname(os.path.dirname(os.path.abspath(__file__)))
BEGIN, END = "<!-- SEEDED_TABLE_BEGIN -->", "<!-- SEEDED_TABLE_END -->"


def first_sentence(t: str) -> str:
    t = " ".join(t.split())
    t = re.sub(r"^Change:\s*", "", t)
    m = re.search(r"(?<=[a-z0-9\)\]'`])\.\s", t)
    t = t[:m.start() + 1] if m else t
    return (t[:157] + "...") if len(t) > 160 else t


def main():
    rows = []
    for p in sorted(glob.glob(os.path.join(VERIF, "seeded", "C*", "meta.json")),
                    key=lambda s: (os.path.basename(os.path.dirname(s))[:3], int(os.path.basename(os.path.dirname(s))[4:]))):
        m = json.load(open(p))
        sc = m["static_checks"]
        own = m["breaks_property"]
        by = sc["violations_reported_by"]
        own_rules = ", ".join(by.get(own, [])) or "**not caught by its own property**"
        others = "; ".join(f"{k}: {', '.join(v)}" for k, v in sorted(by.items()) if k != own) or "-"
        rows.append(f"| {m['id']} | {first_sentence(m['what_it_needs_to_manifest'])} | {own_rules} | {others} |")
    n = len(rows)
    metas = [json.load(open(p)) for p in glob.glob(os.path.join(VERIF, "seeded", "C*", "meta.json"))]
    own_n = sum(1 for m in metas if m["static_checks"]["caught_by_own_property"])
    any_n = sum(1 for m in metas if m["static_checks"]["caught_by_any"])
    head = [BEGIN,
            f"{n} confirmed changes; {own_n} reported by the check of the property they break, {any_n} by at least one check.",
            "",
            "| id | change (first sentence of the author's note) | rules of its own property that fire | other properties that fire |",
            "|---|---|---|---|"]
    block = "\n".join(head + rows + [END])
    path = os.path.join(VERIF, "DESIGN.md")
    s = open(path).read()
    if BEGIN in s:
        s = s[:s.index(BEGIN)] + block + s[s.index(END) + len(END):]
    else:
        s = s.replace("SEEDED_TABLE_PLACEHOLDER", block)
    open(path, "w").write(s)
    print(f"{n} rows; own={own_n} any={any_n}")


if __name__ == "__main__":
    main()
