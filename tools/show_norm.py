#!/venv/bin/python
"""usage: tools/show_norm.py <diff|-> <Class|-> <function> [flow]  -- print the normalised source (and optionally the normal flow)
of a function, on /repo with <diff> applied in a scratch worktree."""
import ast
import subprocess
import sys

sys.path.insert(0, "/verif")
from sa.model import Model  # noqa: E402

diff, cls, fn = sys.argv[1:4]
wt = None
if diff != "-":
    wt = "/tmp/show_norm_wt"
    subprocess.run(f"git -C /repo worktree remove --force {wt} 2>/dev/null; git -C /repo worktree add -q --detach {wt} HEAD && cd {wt} && git apply --whitespace=nowarn {diff}", shell=True, check=True)
try:
    m = Model(repo=wt) if wt else Model()
    if cls == "-":
        f = next(x for x in m.functions.values() if x.cls is None and x.name == fn)
    else:
        f = m.method(m.cls(cls), fn)
    print(ast.unparse(f.node))
    if len(sys.argv) > 4:
        from sa.parsershape import normal_flow
        fl = normal_flow(m, f)
        for e in fl.effects:
            print(e.kind, "|", fl.canon(e.expr), "| when", fl.canon_cond(e.cond))
finally:
    if wt:
        subprocess.run(f"git -C /repo worktree remove --force {wt}", shell=True)
