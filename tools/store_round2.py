#!/venv/bin/python
"""Store the round-2 deliverables: breaking changes as seeded/<Cxx>-<k+3>/ and behaviour-preserving
refactorings as seeded/refactors/<Cxx>-r<k>/ (confirmation data from tools/eval_seeded.py output in <resdir>).

usage: [CHANGE_OFFSET=3 REFACTOR_OFFSET=0 ROUND=2] tools/store_round2.py <resdir with Cxx.json / Cxx.ref.json> <srcroot with Cxx/_seeded/>"""
import json, os, shutil, sys
VERIF = os.path.dirname(os.path.dirname(os.path.abspath(__file__)))
res_dir, src_root = sys.argv[1], sys.argv[2]
CH_OFF = int(os.environ.get("CHANGE_OFFSET", "3"))
RF_OFF = int(os.environ.get("REFACTOR_OFFSET", "0"))
ROUND = int(os.environ.get("ROUND", "2"))
n_c = n_r = 0
for i in range(1, 21):
    p = f"C{i:02d}"
    src = os.path.join(src_root, p, "_seeded")
    fn = os.path.join(res_dir, f"{p}.json")
    if os.path.exists(fn):
        for l in open(fn):
            if not l.startswith("{"):
                continue
            r = json.loads(l)
            if not r.get("confirmed"):
                print("not confirmed:", p, r.get("k")); continue
            k = int(r["k"])
            sid = f"{p}-{k + CH_OFF}"
            d = os.path.join(VERIF, "seeded", sid)
            os.makedirs(d, exist_ok=True)
            shutil.copy(os.path.join(src, f"change{k}.diff"), os.path.join(d, "patch.diff"))
            shutil.copy(os.path.join(src, f"demo{k}.py"), os.path.join(d, "demo.py"))
            note = open(os.path.join(src, f"note{k}.txt")).read().strip() if os.path.exists(os.path.join(src, f"note{k}.txt")) else ""
            meta = {
                "id": sid, "breaks_property": p, "round": ROUND,
                "origin": os.environ.get("ORIGIN", "independent sub-agent given only the property text, the list of changes already known, and a scratch worktree"),
                "what_it_needs_to_manifest": note,
                "files_changed": r.get("changed_files", []),
                "confirmation": {
                    "procedure": "fresh scratch worktree of /repo HEAD: demo exits 0; git apply patch.diff; pinned suite; demo again; worktree removed",
                    "demo_on_clean_tree_rc": r["demo_clean_rc"], "suite_with_change": r["tests"], "demo_with_change_rc": r["demo_changed_rc"],
                },
                "static_checks": {"how_run": "tools/reeval_seeded.py", "violations_reported_by": {}, "analysis_errors": {},
                                  "caught_by_own_property": False, "caught_by_any": False},
            }
            json.dump(meta, open(os.path.join(d, "meta.json"), "w"), indent=1)
            n_c += 1
    fn = os.path.join(res_dir, f"{p}.ref.json")
    if os.path.exists(fn):
        for l in open(fn):
            if not l.startswith("{"):
                continue
            r = json.loads(l)
            if not r.get("valid"):
                print("refactor not valid:", p, r.get("k")); continue
            k = int(r["k"])
            sid = f"{p}-r{k + RF_OFF}"
            d = os.path.join(VERIF, "seeded", "refactors", sid)
            os.makedirs(d, exist_ok=True)
            shutil.copy(os.path.join(src, f"refactor{k}.diff"), os.path.join(d, "patch.diff"))
            note = open(os.path.join(src, f"rnote{k}.txt")).read().strip() if os.path.exists(os.path.join(src, f"rnote{k}.txt")) else ""
            meta = {
                "id": sid, "kind": "behaviour-preserving refactoring (must stay silent)", "written_for_property": p, "round": ROUND,
                "origin": "independent sub-agent given only the property text and a scratch worktree",
                "what_it_changes": note,
                "files_changed": r.get("changed_files", []),
                "confirmation": {"procedure": "fresh scratch worktree of /repo HEAD: git apply patch.diff; pinned suite", "suite_with_change": r["tests"]},
                "static_checks": {"how_run": "tools/reeval_seeded.py", "fired": {}, "silent": None},
            }
            json.dump(meta, open(os.path.join(d, "meta.json"), "w"), indent=1)
            n_r += 1
print("stored", n_c, "changes and", n_r, "refactorings")
