#!/venv/bin/python
"""Copy confirmed seeded changes into /verif/seeded/<id>/ with meta.json (from tools/eval_seeded.py output)."""
import json, os, shutil, sys, glob
VERIF = os.path.dirname(os.path.dirname(os.path.abspath(__file__)))
res_dir, src_root = sys.argv[1], sys.argv[2]
rows = []
for fn in sorted(glob.glob(os.path.join(res_dir, "*.jsonl"))):
    for l in open(fn):
        r = json.loads(l)
        if not r.get("confirmed"):
            print("not confirmed:", r["prop"], r["k"]); continue
        sid = f"{r['prop']}-{r['k']}"
        d = os.path.join(VERIF, "seeded", sid)
        os.makedirs(d, exist_ok=True)
        src = os.path.join(src_root, r["prop"], "_seeded")
        shutil.copy(os.path.join(src, f"change{r['k']}.diff"), os.path.join(d, "patch.diff"))
        shutil.copy(os.path.join(src, f"demo{r['k']}.py"), os.path.join(d, "demo.py"))
        note = open(os.path.join(src, f"note{r['k']}.txt")).read().strip() if os.path.exists(os.path.join(src, f"note{r['k']}.txt")) else ""
        fired = {p: v["rules"] for p, v in r.get("fired", {}).items() if v["rc"] == 1}
        errs = {p: v["first"] for p, v in r.get("fired", {}).items() if v["rc"] == 2}
        meta = {
            "id": sid,
            "breaks_property": r["prop"],
            "origin": "independent sub-agent given only the property text and a scratch worktree",
            "what_it_needs_to_manifest": note,
            "files_changed": r.get("changed_files", []),
            "confirmation": {
                "procedure": "fresh scratch worktree of /repo HEAD: demo exits 0; git apply patch.diff; pinned suite; demo again; worktree removed",
                "demo_on_clean_tree_rc": r["demo_clean_rc"], "suite_with_change": r["tests"], "demo_with_change_rc": r["demo_changed_rc"],
            },
            "static_checks": {
                "how_run": "./check <Cxx> with SA_REPO=<patched scratch worktree> for all twenty properties",
                "violations_reported_by": fired,
                "analysis_errors": errs,
                "caught_by_own_property": r["prop"] in fired,
                "caught_by_any": bool(fired),
            },
        }
        json.dump(meta, open(os.path.join(d, "meta.json"), "w"), indent=1)
        rows.append(meta)
json.dump([{"id": m["id"], "fired": m["static_checks"]["violations_reported_by"], "errors": m["static_checks"]["analysis_errors"]} for m in rows],
          open(os.path.join(VERIF, "seeded", "SUMMARY.json"), "w"), indent=1)
own = sum(m["static_checks"]["caught_by_own_property"] for m in rows); anyc = sum(m["static_checks"]["caught_by_any"] for m in rows)
print(len(rows), "stored; caught by own property:", own, "; by any:", anyc)
