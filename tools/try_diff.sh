#!/bin/bash
# usage: tools/try_diff.sh <diff> [Cxx ...]   -- run the checks against a scratch worktree of /repo with <diff> applied
set -e
d=$1; shift
props=${@:-$(seq -f "C%02g" 1 20)}
wt=$(mktemp -d /tmp/trydiff_XXXX); rmdir $wt
git -C /repo worktree add -q --detach $wt HEAD
trap "git -C /repo worktree remove --force $wt" EXIT
(cd $wt && git apply --whitespace=nowarn $d)
cd "$(dirname "$0")/.."
for p in $props; do
  SA_REPO=$wt SA_NO_EVIDENCE=1 /venv/bin/python -B sa/main.py $p 2>&1 | grep -v "^OK" | cut -c1-${CUT:-330} || true
done
