#!/bin/bash
# usage: tools/try_notes.sh <diff> <Cxx>  -- show the notes the check records on a patched scratch tree
set -e
d=$1; p=$2
wt=$(mktemp -d /tmp/trydiff_XXXX); rmdir $wt
git -C /repo worktree add -q --detach $wt HEAD
trap "git -C /repo worktree remove --force $wt" EXIT
(cd $wt && git apply --whitespace=nowarn $d)
cd /verif
SA_REPO=$wt SA_NO_EVIDENCE=1 /venv/bin/python -B - <<PY
import sys
sys.path.insert(0,'/verif')
from sa.main import run_property
out={}
rc=run_property("$p","quick",quiet=True,out=out)
print("rc",rc)
for n in out["ctx"].notes: print("NOTE",n)
PY
